#!/bin/bash
# try_seed.sh <patch.diff> <check id>... : applies a seeded change to /repo, runs the given quick checks, undoes it.
patch=$1; shift
cd /repo && git status --porcelain | grep -q . && { echo "/repo not clean"; exit 2; }
git -C /repo apply "$patch" || exit 2
cd /verif
for id in "$@"; do
  out=$(./check $id ${TIER:-quick} 2>&1); rc=$?
  echo "== $id rc=$rc $(echo "$out" | grep -c '^VIOLATION') violation line(s)"
  echo "$out" | grep -A1 '^VIOLATION' | cut -c1-260 | head -${LINES_SHOWN:-6}
done
git -C /repo checkout -- .
git -C /repo status --porcelain | head -2
