#!/bin/bash
# try_seed.sh <patch.diff> <check id>... : runs the given checks against a scratch worktree of /repo with the seeded change
# applied (NUCS_REPO / MC_OUT_DIR redirect the checks; /repo itself and /verif/evidence are left untouched), then removes it.
# Equivalent to: git -C /repo apply <patch>; ./check ...; git -C /repo checkout -- .
patch=$(readlink -f "$1"); shift
wt=/tmp/seedrepo.$$
git -C /repo worktree add -q --detach $wt HEAD || exit 2
git -C $wt apply "$patch" || { git -C /repo worktree remove --force $wt; exit 2; }
cd /verif
for id in "$@"; do
  out=$(NUCS_REPO=$wt MC_OUT_DIR=/tmp/seedout.$$ MC_NBCACHE_ROOT=/tmp/mc-nbcache-seed.$$ ./check $id ${TIER:-quick} 2>&1); rc=$?
  echo "== $id rc=$rc $(echo "$out" | grep -c '^VIOLATION') violation line(s)"
  echo "$out" | grep -A1 '^VIOLATION' | cut -c1-260 | head -${LINES_SHOWN:-6}
  echo "$out" | grep '^HARNESS' | head -2
done
git -C /repo worktree remove --force $wt; git -C /repo worktree prune
rm -rf /tmp/seedout.$$ /tmp/mc-nbcache-seed.$$
