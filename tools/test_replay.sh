#!/bin/bash
# test_replay.sh <seed dir> <check id>: the replay of a reported violation fails on the seeded tree and passes on /repo
seed=$1; id=$2
wt=/tmp/replayrepo.$$; out=/tmp/replayout.$$
git -C /repo worktree add -q --detach $wt HEAD || exit 2
git -C $wt apply $(readlink -f $seed/patch.diff) || exit 2
cd /verif
NUCS_REPO=$wt MC_OUT_DIR=$out MC_NBCACHE_ROOT=/tmp/mc-nbcache-replay.$$ ./check $id quick > $out.log 2>&1
rp=$(grep '^VIOLATION' $out.log | head -1 | sed 's/.*replay=//')
if [ -z "$rp" ]; then echo "$id: no violation reported"; else
  NUCS_REPO=$wt MC_NBCACHE_ROOT=/tmp/mc-nbcache-replay.$$ ./check $id quick --replay $rp > $out.r1 2>&1; r1=$?
  ./check $id quick --replay $rp > $out.r2 2>&1; r2=$?
  echo "$id: replay on seeded tree rc=$r1 (want 1), on /repo rc=$r2 (want 0)"
  [ $r1 -ne 1 ] && tail -3 $out.r1
  [ $r2 -ne 0 ] && tail -3 $out.r2
fi
git -C /repo worktree remove --force $wt; git -C /repo worktree prune; rm -rf $out $out.* /tmp/mc-nbcache-replay.$$
