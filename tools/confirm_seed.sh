#!/bin/bash
# confirm_seed.sh <worktree>: confirms a seeded change produced in a scratch worktree:
#   the 192 tests pass with the change (fresh numba cache), the demo fails with it and passes without it.
wt=$1
cd "$wt" || exit 2
git diff -- nucs > mutation/patch.diff
[ -s mutation/patch.diff ] || { echo "EMPTY PATCH"; exit 2; }
rm -rf "$wt/.nbcache_confirm"
tests=$(NUMBA_CACHE_DIR=$wt/.nbcache_confirm /venv/bin/python -m pytest -q -p no:cacheprovider --timeout=900 2>&1 | tail -1)
PYTHONPATH=$wt NUMBA_DISABLE_JIT=1 /venv/bin/python mutation/demo.py > /tmp/demo_with.$$ 2>&1; with=$?
# (no git stash: the stash is shared by all worktrees of one repository)
git apply -R mutation/patch.diff || { echo "CANNOT REVERT PATCH"; exit 2; }
PYTHONPATH=$wt NUMBA_DISABLE_JIT=1 /venv/bin/python mutation/demo.py > /tmp/demo_without.$$ 2>&1; without=$?
git apply mutation/patch.diff
rm -rf "$wt/.nbcache_confirm"
echo "tests: $tests"
echo "demo with change: exit $with ; without: exit $without"
tail -3 /tmp/demo_with.$$; rm -f /tmp/demo_with.$$ /tmp/demo_without.$$
