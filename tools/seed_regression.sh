#!/bin/bash
# seed_regression.sh: every kept seeded change must still be reported by the quick check of its property
cd /verif
for d in seeded/*/; do
  name=$(basename $d)
  [ -f $d/patch.diff ] || continue
  prop=$(python3 -c "import json;print(json.load(open('$d/meta.json'))['property'])")
  out=$(tools/try_seed.sh $d/patch.diff $prop 2>&1 | grep "^== ")
  echo "$name :: $out"
done
