#!/bin/bash
# wave_item.sh <worktree> <check id>...: confirm a sub-agent's seeded change (retrying a test run that was killed from outside),
# then run the given quick checks against it
wt=$1; shift
b=$(basename $wt)
for attempt in 1 2 3; do
  /verif/tools/confirm_seed.sh $wt > /tmp/confirm_$b.txt 2>&1
  grep -q "^tests: .*passed\|^tests: .*failed" /tmp/confirm_$b.txt && break
done
cat /tmp/confirm_$b.txt
/verif/tools/try_seed.sh $wt/mutation/patch.diff "$@"
