#!/bin/bash
# wave_item.sh <worktree> <check id>...: confirm a sub-agent's seeded change, then run the given quick checks against it
wt=$1; shift
b=$(basename $wt)
/verif/tools/confirm_seed.sh $wt > /tmp/confirm_$b.txt 2>&1
cat /tmp/confirm_$b.txt
/verif/tools/try_seed.sh $wt/mutation/patch.diff "$@"
