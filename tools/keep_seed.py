#!/usr/bin/env python3
"""keep_seed.py <worktree> <name> <property> <caught_by csv> <needs...>: stores a confirmed seeded change under /verif/seeded/<name>/"""
import json, os, shutil, subprocess, sys
wt, name, prop, caught = sys.argv[1:5]
needs = " ".join(sys.argv[5:])
d = f"/verif/seeded/{name}"
os.makedirs(d, exist_ok=True)
shutil.copy(f"{wt}/mutation/patch.diff", f"{d}/patch.diff")
shutil.copy(f"{wt}/mutation/demo.py", f"{d}/demo.py")
if os.path.exists(f"{wt}/mutation/README.md"):
    shutil.copy(f"{wt}/mutation/README.md", f"{d}/README.md")
confirm = open(f"/tmp/confirm_{os.path.basename(wt)}.txt").read().strip().splitlines()[:2] if os.path.exists(f"/tmp/confirm_{os.path.basename(wt)}.txt") else []
meta = {
    "property": prop,
    "breaks": prop,
    "needs_to_manifest": needs,
    "produced_by": "independent sub-agent given only the property text and a scratch worktree",
    "confirmed": {"commands": ["tools/confirm_seed.sh <worktree>  (192 tests with a fresh NUMBA_CACHE_DIR; demo with and without the change)",
                               f"tools/try_seed.sh seeded/{name}/patch.diff {' '.join(caught.split(','))}"],
                  "results": confirm},
    "caught_by": [c for c in caught.split(",") if c],
    "base_commit": subprocess.check_output(["git", "-C", "/repo", "rev-parse", "--short", "HEAD"], text=True).strip(),
}
json.dump(meta, open(f"{d}/meta.json", "w"), indent=1)
print("kept", d)
