#!/usr/bin/env python3
"""Regenerates the table of seeded changes in DESIGN.md (between the SEEDS-BEGIN / SEEDS-END markers) from seeded/*/meta.json"""
import glob, json, os, re
rows = []
for d in sorted(glob.glob('/verif/seeded/*/meta.json')):
    m = json.load(open(d)); name = os.path.basename(os.path.dirname(d))
    rows.append(f"| `{name}` | {m['property']} | {m.get('needs_to_manifest', m.get('note', ''))[:260]} | {', '.join(m.get('caught_by', []))} |")
table = "| seeded change | property | what it needs to manifest | quick checks that report it |\n|---|---|---|---|\n" + "\n".join(rows)
s = open('/verif/DESIGN.md').read()
if '<!-- SEEDS-BEGIN -->' in s:
    s = re.sub(r'<!-- SEEDS-BEGIN -->.*?<!-- SEEDS-END -->', '<!-- SEEDS-BEGIN -->\n' + table + '\n<!-- SEEDS-END -->', s, flags=re.S)
else:
    a = s.index('| seeded change | property |')
    b = s.index('\n\nChecks strengthened because')
    s = s[:a] + '<!-- SEEDS-BEGIN -->\n' + table + '\n<!-- SEEDS-END -->' + s[b:]
open('/verif/DESIGN.md', 'w').write(s)
print(len(rows), "seeded changes listed")
