import json, subprocess, os
sites = {
 "C01": "the `and`, `exactly_true`, `max_leq`, `min_geq`, `element_liv` or `count_eq` propagators, or the way BacktrackSolver decides that a state is a solution (all variables instantiated) / builds the solution vector",
 "C02": "`smallest_domain_var_heuristic` / `greatest_domain_var_heuristic`, or the way BacktrackSolver.solve / find_all / solve_one resumes the search after a solution has been yielded",
 "C03": "the maximisation path (increase_min, maximize, maximize_and_queue) or the comparison of incumbents in MultiprocessingSolver.optimize, or the pruning of the objective between restarts",
 "C04": "the propagation queue handling in bound_consistency_algorithm (update_propagators / the triggered_propagators array), the loops of scc_propagator / alldifferent_propagator, or the shaving outer loop",
 "C05": "`element_liv`, `min_geq`, `max_leq`, `and`, `exactly_true`, `min_eq` or `affine_geq`/`affine_leq` with mixed-sign coefficients",
 "C06": "`exactly_true`, `and`, `alldifferent`, `min_eq`, `lexicographic_leq`, `count_eq` or `gcc` with strictly positive upper capacities",
 "C07": "an 'entailed' answer (PROP_ENTAILMENT) of a propagator other than lexicographic_leq / affine_geq / element_iv (e.g. max_leq, min_geq, and, count_eq, exactly_eq, alldifferent, affine_leq, relation, element_liv), or the bookkeeping of the not_entailed_propagators flags in the solver/choice points",
 "C08": "the computation of which propagators are woken from the domain-update events (update_propagators in bound_consistency_algorithm.py, the triggers table built in Problem.init / BacktrackSolver.__init__), or the get_triggers function of element_liv / count_eq / lexicographic_leq / alldifferent / and / exactly_eq",
 "C09": "min_value_dom_heuristic / value_dom_heuristic.py / mid_value_dom_heuristic, or cp_put / backtrack in choice_points.py (what is saved and restored: domains, flag row, recorded events)",
 "C10": "the function shave_bound (or its callers) in shaving_consistency_algorithm.py: which bound is probed, how the probe is undone, what is kept after a refuted / non-refuted probe",
 "C11": "MultiprocessingSolver.solve (streaming of solutions from several workers), the aggregation in get_statistics, or solve_and_queue in backtrack_solver.py",
 "C12": "Problem.split in problems/problem.py: copying depth of what the parts share with the original, distribution of the remainder, parts when the number of parts does not divide the size",
 "C13": "Problem.init (ordering of propagators by complexity, per-propagator variable/offset/parameter tables), Problem.add_propagator(s), or the use of shr_domains offsets in BacktrackSolver.__init__",
 "C14": "`alldifferent` (filter_lower / filter_upper), `element_iv`, `max_leq`, `min_geq`, `count_eq`, `and`, `relation` or `exactly_true`: a change that stays sound (never removes a solution) but no longer reaches the exact bounds hull or is no longer idempotent",
 "C15": "state that survives between two uses: a BacktrackSolver object used twice (solve then minimize, find_all twice), a Problem given to two solvers, module-level arrays or caches, registries of propagators / heuristics / consistency algorithms",
 "C16": "`alldifferent`, `scc`, `relation`, `exactly_eq`, `count_eq`, `no_sub_cycle`, `lexicographic_leq` or the cost-table heuristics (min_cost_dom_heuristic / max_regret_var_heuristic)",
 "C17": "the statistics counters updated in bound_consistency_algorithm.py and backtrack_solver.py (PROPAGATOR_* and SOLVER_* counters: filters, entailments, inconsistencies, no-changes, choices, backtracks, solutions, depth) during optimisation restarts or partial enumeration, or the shaving counters",
 "C18": "the polling loop of multiprocessing_solver.py (get_from_processes or equivalent): timeouts, liveness test, final drain, what is raised; a change different from 'never detect death at all'",
 "C19": "limits other than the stack height: number of propagators, propagator arity, number of shared domains / variables (uint16 indices), algorithm indices (uint8), parameter counts, value ranges of int32 domains; the checks in Problem.init / BacktrackSolver.__init__",
 "C20": "an example model other than golomb / knapsack / magic_sequence / quasigroup / tsp: sudoku, alpha, donald, bibd, sports_tournament_scheduling, schur_lemma, magic_square, latin_square (both models), queens, circuit",
}
props = {json.loads(l)["id"]: json.loads(l) for l in open("/verif/properties.jsonl")}
tmpl = open("/verif/tools/wave/template.md").read()
for pid, site in sites.items():
    wt = f"/tmp/w9/{pid}"
    if not os.path.isdir(wt):
        subprocess.check_call(["git", "-C", "/repo", "worktree", "add", "-q", "--detach", wt, "HEAD"])
    os.makedirs(wt + "/mutation", exist_ok=True)
    p = props[pid]
    text = json.dumps({k: p[k] for k in p if k in ("id","title","statement","quantifier","why_tests_cant")}, indent=1)
    open(f"/tmp/w9/{pid}.task.md", "w").write(tmpl.replace("@WT@", wt).replace("@PROP@", text).replace("@SITE@", site).replace("@ID@", pid))
print("ok")
