#!/bin/bash
# run_all.sh [quick|thorough] : runs every registered check on the current tree and prints one line each
cd /verif
tier=${1:-quick}
for id in C01 C02 C03 C04 C05 C06 C07 C08 C09 C10 C11 C12 C13 C14 C15 C16 C17 C18 C19 C20; do
  out=$(./check $id $tier 2>&1); rc=$?
  echo "$id rc=$rc :: $(echo "$out" | tail -1)"
  echo "$out" | grep -E '^(VIOLATION|HARNESS)' | head -3
done
