#!/bin/bash
# Offline setup: nothing to build (pure Python on /venv, which already has nucs installed editable from /repo).
set -e
cd "$(dirname "$0")"
/venv/bin/python -c "import numpy, numba; import sys; sys.path.insert(0, '/repo'); import nucs" 
mkdir -p evidence replays
echo setup ok
