"""
Process environment of every check.  Imported before anything from nucs / numba.

The code under exploration is the working tree of /repo, executed in NuCS's own interpreted mode
(NUMBA_DISABLE_JIT=1): every @njit function is then the plain Python function, every registry is a Python
list, and a source edit is effective at once (no numba cache involved).
Compiled-mode checks (C15, C16b, C19, C20) start *sub-processes* with their own environment, see mc/subproc.py.
"""
import os
import sys

REPO = os.environ.get("NUCS_REPO", "/repo")
VERIF = os.path.dirname(os.path.dirname(os.path.abspath(__file__)))

if os.environ.get("MC_COMPILED") != "1":
    os.environ["NUMBA_DISABLE_JIT"] = "1"
os.environ.setdefault("PYTHONHASHSEED", "0")
os.environ["NUCS_VERIF"] = "1"  # reserved guard name; no source hook exists (MANIFEST.hooks)
sys.dont_write_bytecode = True
if REPO not in sys.path:
    sys.path.insert(0, REPO)
if VERIF not in sys.path:
    sys.path.insert(0, VERIF)

import logging  # noqa: E402

logging.disable(logging.CRITICAL)  # NuCS logs at INFO through the root logger; silence it in checks

NPROC = int(os.environ.get("MC_NPROC", str(os.cpu_count() or 4)))
