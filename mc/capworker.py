"""Capacity grid worker (C19). Runs grid points in this process (interpreted or compiled) and prints one JSON line per point.
python -m mc.capworker <json list of points>   point = [kind, n, height, heuristic, cons]"""
import json
import sys
import warnings

from mc import env  # noqa

warnings.simplefilter("ignore")


def chain_problem(n, dom, reverse):
    from nucs.problems.problem import Problem
    from nucs.propagators.propagators import ALG_AFFINE_LEQ

    p = Problem([dom] * n)
    for i in range(n - 1):
        p.add_propagator(([i, i + 1], ALG_AFFINE_LEQ, [-1, 1, 0] if reverse else [1, -1, 0]))
    return p


def expected_chain(n, dom, reverse):
    import itertools

    lo, hi = dom
    if hi - lo == 1:
        sols = [tuple([lo] * k + [hi] * (n - k)) for k in range(n + 1)]
    else:
        sols = [x for x in itertools.product(range(lo, hi + 1), repeat=n) if all(a <= b for a, b in zip(x, x[1:]))]
    if reverse:
        sols = [tuple(reversed(x)) for x in sols]
    return sorted(sols)


I31 = 2 ** 31
VALUE_CASES = {
    # name: (Problem arguments, propagators, expected sorted solutions)   -- expected = what the declaration means mathematically
    "dom-top-inside": (([(I31 - 3, I31 - 1)],), [], [(I31 - 3,), (I31 - 2,), (I31 - 1,)]),
    "dom-bottom-inside": (([(-I31, -I31 + 2)],), [], [(-I31,), (-I31 + 1,), (-I31 + 2,)]),
    "dom-max-above-int32": (([(I31 - 1, I31)],), [], [(I31 - 1,), (I31,)]),
    "dom-min-below-int32": (([(-I31 - 1, -I31)],), [], [(-I31 - 1,), (-I31,)]),
    "dom-2^32": (([(2 ** 32 + 1, 2 ** 32 + 2)],), [], [(2 ** 32 + 1,), (2 ** 32 + 2,)]),
    "dom-2^32-second": (([(0, 1), (2 ** 32, 2 ** 32 + 1)],), [], [(a, 2 ** 32 + b) for a in (0, 1) for b in (0, 1)]),
    "dom-minus-2^32": (([(-2 ** 32 - 2, -2 ** 32 - 1)],), [], [(-2 ** 32 - 2,), (-2 ** 32 - 1,)]),
    "singleton-2^32": (([2 ** 32 + 7, (0, 1)],), [], [(2 ** 32 + 7, 0), (2 ** 32 + 7, 1)]),
    "view-sum-above-int32": (([(I31 - 2, I31 - 1)], [0, 0], [0, 5]), [], [(I31 - 2, I31 + 3), (I31 - 1, I31 + 4)]),
    "view-sum-below-int32": (([(-I31, -I31 + 1)], [0, 0], [0, -5]), [], [(-I31, -I31 - 5), (-I31 + 1, -I31 - 4)]),
    "view-sum-inside": (([(I31 - 2, I31 - 1)], [0, 0], [0, -5]), [], [(I31 - 2, I31 - 7), (I31 - 1, I31 - 6)]),
    "offset-2^32": (([(0, 1)], [0], [2 ** 32 + 5]), [], [(2 ** 32 + 5,), (2 ** 32 + 6,)]),
    "parameter-2^32": (([(0, 1), (0, 1)],), [([0, 1], "leq", [1, 1, 2 ** 32 + 1])], [(0, 0), (0, 1), (1, 0), (1, 1)]),
    "parameter-minus-2^32": (([(0, 1), (0, 1)],), [([0, 1], "leq", [1, 1, -2 ** 32 + 1])], []),
    "added-variable-2^32": ("add_variable", [], [(0, 2 ** 32 + 1), (0, 2 ** 32 + 2)]),
}


def value_case(name):
    from nucs.problems.problem import Problem  # noqa
    from nucs.propagators.propagators import ALG_AFFINE_LEQ

    args, cons, exp = VALUE_CASES[name]
    cons = [(vs, ALG_AFFINE_LEQ, ps) for vs, _t, ps in cons]
    return args, cons, sorted(exp)


def run_point(pt):
    from mc import solvemc as S
    from nucs.solvers.backtrack_solver import BacktrackSolver

    kind, n, height, heur, cons = pt
    out = {"point": pt}
    try:
        if kind == "chain":
            dom = (0, 2) if heur in ("mid", "min_cost3") else (0, 1)
            reverse = heur == "max"
            problem = chain_problem(n, dom, reverse)
            kw = {}
            h = heur
            if heur.startswith("min_cost"):
                h = "min_cost"
                kw["dom_heuristic_params"] = [[2, 1, 3][: dom[1] + 1]] * n
            solver = BacktrackSolver(problem, consistency_alg_idx=S.CONS[cons], dom_heuristic_idx=S.DOMH[h], stack_max_height=height,
                                     log_level="ERROR", **kw)
            sols = sorted(tuple(int(v) for v in x) for x in solver.solve())
            exp = expected_chain(n, dom, reverse)
            out["outcome"] = "correct" if sols == exp else f"wrong:{len(sols)}-of-{len(exp)}"
            out["depth"] = solver.get_statistics()["SOLVER_CHOICE_DEPTH"]
        elif kind == "sizes":
            # n = number of propagators / variables; `heur` names the dimension
            from nucs.problems.problem import Problem
            from nucs.propagators.propagators import ALG_AFFINE_LEQ, ALG_ALLDIFFERENT, ALG_RELATION

            kw_solver = {}
            valid = lambda x: True
            if heur == "propagators":
                p = Problem([(0, 1), (0, 1)])
                for i in range(n):
                    p.add_propagator(([0, 1], ALG_AFFINE_LEQ, [1, -1, 0]))
                exp = 3
            elif heur == "variables":
                p = Problem([(0, 1)] + [0] * (n - 1))
                p.add_propagator(([0, n - 1], ALG_AFFINE_LEQ, [1, -1, 0]))
                exp = 1
            elif heur == "slots":
                # total number of propagator variable slots
                k = 5
                p = Problem([(0, 1)] * k)
                m = n // k
                for i in range(m):
                    p.add_propagator((list(range(k)), ALG_AFFINE_LEQ, [1] * k + [k]))
                if n - m * k:
                    p.add_propagator((list(range(n - m * k)), ALG_AFFINE_LEQ, [1] * (n - m * k) + [k]))
                exp = 32
            elif heur == "parameters":
                p = Problem([(0, 1), (0, 1)])
                tuples = [0, 1] * (n // 2)
                p.add_propagator(([0, 1], ALG_RELATION, tuples))
                exp = 1
            elif heur == "slots1":
                # n propagator-variable slots made of arity-1 propagators (a one-element array broadcasts into an empty slice,
                # so a wrapped 16-bit offset is not refused by accident) + one binary constraint
                p = Problem([(0, 1), (0, 1)])
                for i in range(n - 2):
                    p.add_propagator(([i % 2], ALG_ALLDIFFERENT, []))
                p.add_propagator(([0, 1], ALG_AFFINE_LEQ, [1, -1, 0]))
                exp = 3
                valid = lambda x: x[0] <= x[1]
            elif heur == "parameters1":
                # n parameters made of one-parameter propagators + one binary constraint with 3 parameters
                from nucs.propagators.propagators import ALG_EXACTLY_TRUE
                p = Problem([(0, 1), (0, 1), (1, 1)])
                for i in range(n - 3):
                    p.add_propagator(([2], ALG_EXACTLY_TRUE, [1]))
                p.add_propagator(([0, 1], ALG_AFFINE_LEQ, [1, -1, 0]))
                exp = 3
                valid = lambda x: x[0] <= x[1] and x[2] == 1
            elif heur == "domains-explicit-decision":
                # n shared domains, the last one bound and used by a constraint, explicit decision domains [0, 1]
                from nucs.propagators.propagators import ALG_AFFINE_EQ
                p = Problem([(0, 5), (0, 5)] + [0] * (n - 3) + [7])
                p.add_propagator(([1, n - 1], ALG_AFFINE_EQ, [1, 1, 9]))
                kw_solver = {"decision_domains": [0, 1]}
                exp = 6
                valid = lambda x: x[1] == 2 and x[n - 1] == 7 and 0 <= x[0] <= 5
            elif heur == "views":
                # n variables that are views of two shared domains; the constraint uses the last variable
                p = Problem([(0, 1), (0, 1)], [0, 1] + [0] * (n - 2), [0] * n)
                p.add_propagator(([1, n - 1], ALG_AFFINE_LEQ, [1, -1, 0]))
                exp = 3
                valid = lambda x: x[1] <= x[n - 1] and x[n - 1] == x[0]
            solver = BacktrackSolver(p, log_level="ERROR", **kw_solver)
            sols = [[int(v) for v in x] for x in solver.solve()]
            cnt = len(sols)
            bad = sum(1 for x in sols if not valid(x))
            out["outcome"] = "correct" if cnt == exp and not bad else f"wrong:{cnt}-of-{exp}" + (f"-{bad}-invalid" if bad else "")
        elif kind == "values":
            # value ranges around the limits of the 32-bit storage of domains, offsets and parameters (n = case number, `heur` its name)
            from nucs.problems.problem import Problem
            from nucs.propagators.propagators import ALG_AFFINE_LEQ

            args, cons_, exp = value_case(heur)
            if args == "add_variable":
                p = Problem([0])
                p.add_variable((2 ** 32 + 1, 2 ** 32 + 2))
            else:
                p = Problem(*args)
            for c in cons_:
                p.add_propagator(c)
            solver = BacktrackSolver(p, dom_heuristic_idx=S.DOMH[cons if cons in S.DOMH else "min"], log_level="ERROR")
            sols = sorted(tuple(int(v) for v in x) for x in solver.solve())
            out["outcome"] = "correct" if sols == exp else f"wrong:{len(sols)}-of-{len(exp)}"
            if sols != exp:
                out["detail"] = f"got {sols[:3]} expected {exp[:3]}"
    except IndexError as e:
        out["outcome"] = "IndexError"
        out["detail"] = str(e)[:120]
    except BaseException as e:  # noqa
        out["outcome"] = "raised:" + type(e).__name__
        out["detail"] = str(e)[:120]
    return out


if __name__ == "__main__":
    pts = json.loads(sys.argv[1])
    for pt in pts:
        print("POINT " + json.dumps(run_point(pt)), flush=True)
