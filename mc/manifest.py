"""Generates /verif/MANIFEST.json from the table below: python -m mc.manifest"""
import json
import os

VERIF = os.path.dirname(os.path.dirname(os.path.abspath(__file__)))

MC = "model_checking"
BASE_TRUST = ("relation predicates and reference models under /verif/mc (written from the documentation, sharing no code "
              "with NuCS); the explored code is the working tree executed in NuCS's own interpreted mode "
              "(NUMBA_DISABLE_JIT=1), bound to compiled mode by the C15 differential check")

# id -> (level, technique, text, note, design_ref, engine)
CHECKS = {
    "C05": (MC, "exhaustive small-scope enumeration of real filtering calls vs truth-table oracle (PropMC)",
            "every (type, arity, parameter vector, box) of the contract table is executed on the real propagator and compared "
            "with the brute-force solution set of the box: a coverage statement over the whole small scope, not a sample",
            BASE_TRUST, "3 C05, 2.3, 2.7", "PropMC"),
}

NOT_YET = {}

ENGINES = [
    {"name": "PropMC", "path": "mc/propmc.py", "kind_free_text": "exhaustive input enumeration of single filtering calls of the real propagators against a truth-table oracle"},
]


def build():
    props = [json.loads(l)["id"] for l in open(os.path.join(VERIF, "properties.jsonl"))]
    checks = []
    for pid in props:
        if pid not in CHECKS:
            continue
        level, tech, text, note, ref, engine = CHECKS[pid]
        checks.append({
            "property_id": pid,
            "quick_cmd": f"./check {pid} quick",
            "thorough_cmd": f"./check {pid} thorough",
            "evidence_file": f"/verif/evidence/{pid}.json",
            "replay_cmd_template": f"./check {pid} quick --replay {{path}}",
            "engine": engine,
            "level_claimed": {"category": level, "text": text, "design_ref": "DESIGN.md " + ref},
            "level_note": note,
            "technique": tech,
        })
    for e in ENGINES:
        e["serves_properties"] = [c["property_id"] for c in checks if e["name"] in c["engine"]]
    man = {
        "version": 1,
        "setup_cmd": "./setup.sh",
        "hooks": {
            "guard": "NUCS_VERIF",
            "enable": "no source hook is needed: every seam is a module global rebound from the harness in interpreted mode "
                      "(checks export NUCS_VERIF=1 for uniformity)",
            "baseline_off_cmd": "cd /repo && /venv/bin/python -m pytest -ra -q -p no:cacheprovider --timeout=900 --continue-on-collection-errors",
            "source_commits": [],
            "add_only": True,
        },
        "engines": ENGINES,
        "checks": checks,
        "notes": "All checks run the current working tree of /repo. Genuine defects repaired in /repo are the unguarded 'fix:' "
                 "commits listed in KNOWN_FINDINGS.txt; unrepaired ones are 'known-finding:' lines there.",
        "not_applicable": [{"property_id": p, "reason": NOT_YET.get(p, "check not built yet in this session (work in progress; see DESIGN.md section 8)")}
                           for p in props if p not in CHECKS],
    }
    with open(os.path.join(VERIF, "MANIFEST.json"), "w") as f:
        json.dump(man, f, indent=1)
    return man


if __name__ == "__main__":
    m = build()
    print("checks:", [c["property_id"] for c in m["checks"]], "n/a:", [c["property_id"] for c in m["not_applicable"]])
