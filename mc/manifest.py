"""Generates /verif/MANIFEST.json from the table below: python -m mc.manifest"""
import json
import os

VERIF = os.path.dirname(os.path.dirname(os.path.abspath(__file__)))

MC = "model_checking"
BASE_TRUST = ("relation predicates and reference models under /verif/mc (written from the documentation, sharing no code "
              "with NuCS); the explored code is the working tree executed in NuCS's own interpreted mode "
              "(NUMBA_DISABLE_JIT=1), bound to compiled mode by the C15 differential check")

# id -> (level, technique, text, note, design_ref, engine)
SOLVE_T = "exhaustive enumeration of a finite problem universe x configurations through the real solver, with interposition monitors (SolveMC)"
PROP_T = "exhaustive small-scope enumeration of real filtering calls vs truth-table oracle (PropMC)"
CHECKS = {
    "C01": (MC, SOLVE_T + "; oracle = independent relation predicates on every delivered vector",
            "every problem of the universe U (single constraints in every sharing layout, constraint pairs, toy shipped models, "
            "adversarial structures) is run under every configuration, enumerating and optimising, and every vector handed to the "
            "caller is checked against domains, offsets and all posted relations; the multiprocessing solver over the real sub-problems of "
            "Problem.split(k, idx) (every idx, permuted layouts) under the controlled scheduler",
            BASE_TRUST, "3 C01, 2.5, 2.8", "SolveMC"),
    "C02": (MC, SOLVE_T + "; oracle = brute-force solution multiset; all posting permutations",
            "find_all of every problem of U (constructor and add_variable(s) spellings; solve(), find_all() and solve_all(callback) entry points) under every configuration and posting order is "
            "compared as a multiset with an independent enumeration of the cartesian product", BASE_TRUST, "3 C02, 2.5, 2.8", "SolveMC"),
    "C03": (MC, SOLVE_T + "; oracle = brute-force optimum + restart-state invariant + step budgets",
            "minimize/maximize of every variable of every problem of U under every configuration; the restart history is observed "
            "by interposing reset/decrease_max/increase_min; the distributed variant is explored with SchedMC (every merge of the "
            "real workers' incumbent streams)", BASE_TRUST, "3 C03, 2.9", "SolveMC"),
    "C04": (MC, "PropMC under a deterministic jump budget + SolveMC with per-pass execution bound, run budget and heuristic-answer validation",
            "bounded liveness: every filtering call of the contract table and every solver run on U is executed under deterministic "
            "step budgets (sys.monitoring loop-iteration counts; (P+1)(D+1) executions per pass)", BASE_TRUST, "3 C04, 2.9", "PropMC+SolveMC"),
    "C05": (MC, PROP_T,
            "every (type, arity, parameter vector, box) of the contract table is executed on the real propagator and compared "
            "with the brute-force solution set of the box: a coverage statement over the whole small scope, not a sample; plus a "
            "wide-domain slice (bounds around 2^8 / 2^16 / +-70000) against closed-form and Hall-interval references",
            BASE_TRUST, "3 C05, 2.3, 2.7", "PropMC"),
    "C06": (MC, PROP_T + "; every ground tuple and every box collapsed to a point by one call",
            "every ground tuple of the value cube and every enumerated box that one call collapses to a point is judged by the "
            "independent relation predicate; ground tuples only at arity 4-10 (all permutations of 7-8 vertices for the circuit constraints)", BASE_TRUST, "3 C06, 2.3", "PropMC"),
    "C07": (MC, PROP_T + " + explicit-state search over the real engine (EngineMC) with a reference frame stack",
            "(a) every 'entailed' answer of the 12 types that can give one is checked against the truth table of the returned box; "
            "(b) every reachable search state (all variable orders, 4 value heuristics, BC and shaving) of the small problems of U: "
            "disabled constraints are checked by brute force on the current box, every backtrack against the reference frame stack",
            BASE_TRUST, "3 C07, 2.4", "PropMC+EngineMC"),
    "C08": (MC, "explicit-state search over (domains, flags, queue) with pop_propagator replaced by a scheduler: all wake-up orders of "
                "every pass in every reachable search state; trigger sufficiency by exhaustive narrowing enumeration (PropMC)",
            "every wake-up order of the propagation queue is explored, each transition being one real execution of the real "
            "bound_consistency_algorithm body; terminal states are checked for shrink-only, re-execution fixpoint and (all-exact-BC) "
            "unique greatest fixpoint; the real pop order is replayed in every pass and must be an explored path",
            BASE_TRUST, "3 C08, 2.4", "EngineMC+PropMC"),
    "C09": (MC, "explicit-state search over operation sequences of the real value heuristics / backtrack in lock-step with a reference frame stack (StackMC)",
            "all sequences of branch(d,h) / backtrack / disable up to a depth from every domain shape, 5 value heuristics (every "
            "in-contract cost table), compared transition by transition with a reference model", BASE_TRUST, "3 C09, 2.4", "StackMC"),
    "C10": (MC, "explicit-state search over the real engine; differential run of real shaving vs real BC on clones of every state (EngineMC)",
            "in every reachable state where a consistency algorithm is invoked, shaving and BC are run on clones: containment, no "
            "solution lost, stack height and lower levels untouched, status soundness; tight stacks (heights 3-6, three-way split) included; "
            "plus whole-solver differential runs",
            BASE_TRUST, "3 C10, 2.4", "EngineMC"),
    "C11": (MC, "stateless deviation-bounded exploration of all merges of the real workers' message streams against the real parent (SchedMC: fake Process/Queue)",
            "every interleaving of the workers' real message streams (plus spurious timeouts / late termination observations up to a "
            "deviation bound, both pickling extremes of the statistics array) is replayed against the real MultiprocessingSolver; "
            "conformance: a slice of the cases also runs with real processes, the real per-worker streams must equal the model's and the "
            "real arrival order replayed through the scheduler must reproduce the real result and statistics; the expected totals are the sums "
            "of the workers' true final statistics (read from the worker's solver after its target returned), not of what the markers carry",
            BASE_TRUST + "; workers are deterministic and share nothing but the queue (checked), per-producer FIFO", "3 C11, 2.6", "SchedMC"),
    "C12": (MC, "exhaustive enumeration of Problem.split over domains x k x layouts; partition laws + find_all of every part",
            "all [a,b] x k x variable position / sharing layouts (incl. layouts where variable i does not use shared domain i) up to the bound; deep comparison of original and parts; the "
            "disjoint union of the parts' solutions equals the original solution set", BASE_TRUST, "3 C12", "SplitMC"),
    "C14": (MC, PROP_T + "; oracle = exact bounds hull, second call, one-round interval reference for affine_eq",
            "for the 17 documented bound-consistent propagators every enumerated call must return exactly the hull and be idempotent; "
            "affine_eq must return the one-round interval box; plus the wide-domain slice of mc/wide.py", BASE_TRUST, "3 C14, 2.3", "PropMC"),
    "C17": (MC, SOLVE_T + "; oracle = event counts observed by interposition + conservation laws",
            "each of the 13 statistics is compared with the count of real events seen by wrappers around every propagator, "
            "heuristic, consistency algorithm, backtrack, cp_put and shave_bound, on exhaustive, partial and optimisation runs, "
            "generous and exactly-full stacks",
            BASE_TRUST, "3 C17", "SolveMC"),
}

CHECKS["C18"] = ("fault_enumeration", "exhaustive enumeration of (worker, crash point) fault plans x all schedules under SchedMC; deadlock / bounded-polling detection",
                 "every worker x every crash point (before the first message, between two solutions, just before the completion marker) "
                 "x every schedule up to the deviation bound is replayed against the real parent; a blocking read nothing can satisfy "
                 "is reported as a hang; thorough adds real-process replays", BASE_TRUST + "; bounded time is decided in virtual time",
                 "3 C18, 2.6", "SchedMC")

EXP = "exploration"
CHECKS["C13"] = (EXP, "exhaustive enumeration of a finite (model, meaning-preserving rewrite, configuration) grid; differential runs of the real solver (RewriteMC)",
                 "models of U (every sharing layout) and shipped models converted from the real Problem objects x de-sharing, all "
                 "constraint / variable permutations (<= 4), duplication, always-true constraints, translation, the add_variable / "
                 "add_variables spellings, one more variable added through add_variable(s) to a constructor-built model with views: solution sets and "
                 "optima of the two writings are compared; exploration level because the grid of models is a chosen finite set",
                 BASE_TRUST, "3 C13", "RewriteMC")
CHECKS["C15"] = (MC, "exhaustive enumeration of histories of solver use (words over 9 operations up to a length, each in a child forked from a pristine "
                     "process) + differential JIT/interpreted runs of a universe slice in fresh processes, forward and reverse order",
                 "every history up to the bound (solving other problems, abandoning enumerations, reusing a Problem, registrations, problems declared from shared "
                 "list objects, same-named user propagators) is followed by a fixed probe whose observable outcome must equal the pristine one, in both "
                 "modes; every case of the slice must give identical solution sequences and statistics compiled vs interpreted, twice in "
                 "one process, and whatever was solved before it", BASE_TRUST + "; compiled runs use a private numba cache keyed by the source hash",
                 "3 C15", "ModeMC+HistoryMC")
CHECKS["C16"] = (MC, "PropMC + SolveMC under bounds monitors: IndexError in interpreted mode, NUMBA_BOUNDSCHECK=1 in compiled sub-processes",
                 "every filtering call of the contract table and every solver run on U is executed with array bounds monitored "
                 "(interpreted: numpy raises IndexError; compiled: numba bounds checking, stderr captured for calls through addresses)",
                 BASE_TRUST, "3 C16", "PropMC+SolveMC")
CHECKS["C19"] = (EXP, "exhaustive enumeration of a finite capacity grid (stack heights x depths x heuristics x modes, sizes around 8/16-bit limits) in sub-processes",
                 "each grid point runs interpreted, compiled and compiled with bounds checking; accepted outcomes are a deliberate error "
                 "or exactly the reference result with no out-of-range access; crash, hang, wrong result, IndexError are violations; sizes: "
                 "propagators, variables, slots and parameters (also made of arity-1 / one-parameter propagators), shared domains with explicit decision domains, views; value ranges: domain bounds, view sums, offsets and parameters just inside and beyond int32",
                 "closed-form solution set of the chain model; sub-process isolation; time budgets per point", "3 C19", "CapacityMC")
CHECKS["C20"] = (EXP, "exhaustive enumeration of a finite grid of shipped models x instances x symmetry breaking x configurations x processes; definition-level validators",
                 "every solution of every case is validated against the problem definition, counts and optima against literature / brute "
                 "force, configurations against each other, satisfiability with vs without symmetry breaking; known optimal Golomb rulers must be "
                 "accepted, bounded Golomb enumerations (BC, the shipped custom algorithm) must match brute force", 
                 "validators of mc/shipworker.py (written from CSPLib problem statements); literature counts", "3 C20", "ShippedMC")

NOT_YET = {}

ENGINES = [
    {"name": "RewriteMC", "path": "mc/props/C13.py", "kind_free_text": "finite grid of meaning-preserving model rewrites, differential runs of the real solver"},
    {"name": "ModeMC+HistoryMC", "path": "mc/modeworker.py", "kind_free_text": "fresh-process differential runs (JIT vs interpreted, forward vs reverse order) and exhaustive enumeration of histories of solver use forked from a pristine process"},
    {"name": "CapacityMC", "path": "mc/props/C19.py", "kind_free_text": "finite capacity grid run in isolated sub-processes in three modes"},
    {"name": "ShippedMC", "path": "mc/props/C20.py", "kind_free_text": "shipped models x instance grid in compiled mode with definition-level validators"},
    {"name": "EngineMC", "path": "mc/enginemc.py", "kind_free_text": "explicit-state search over the solver arrays of the real engine: real consistency algorithms, value heuristics and backtrack as transitions, variable choice nondeterministic, visited-set on a canonical form"},
    {"name": "StackMC", "path": "mc/props/C09.py", "kind_free_text": "explicit-state search over operation sequences of the real choice-point stack in lock-step with a reference frame stack"},
    {"name": "SchedMC", "path": "mc/schedmc.py", "kind_free_text": "controlled scheduler + fault injector for the real MultiprocessingSolver parent (fake Process/Queue), stateless deviation-bounded exploration with prefix replay"},
    {"name": "SolveMC", "path": "mc/solvemc.py", "kind_free_text": "exhaustive enumeration of a finite problem universe x solver configurations through the public API of the real solver, monitors interposed on every engine seam"},
    {"name": "SplitMC", "path": "mc/props/C12.py", "kind_free_text": "exhaustive enumeration of the pure function Problem.split"},
    {"name": "PropMC", "path": "mc/propmc.py", "kind_free_text": "exhaustive input enumeration of single filtering calls of the real propagators against a truth-table oracle"},
]


def build():
    props = [json.loads(l)["id"] for l in open(os.path.join(VERIF, "properties.jsonl"))]
    checks = []
    for pid in props:
        if pid not in CHECKS:
            continue
        level, tech, text, note, ref, engine = CHECKS[pid]
        checks.append({
            "property_id": pid,
            "quick_cmd": f"./check {pid} quick",
            "thorough_cmd": f"./check {pid} thorough",
            "evidence_file": f"/verif/evidence/{pid}.json",
            "replay_cmd_template": f"./check {pid} quick --replay {{path}}",
            "engine": engine,
            "level_claimed": {"category": level, "text": text, "design_ref": "DESIGN.md " + ref},
            "level_note": note,
            "technique": tech,
        })
    for e in ENGINES:
        e["serves_properties"] = [c["property_id"] for c in checks if e["name"] in c["engine"]]
    man = {
        "version": 1,
        "setup_cmd": "./setup.sh",
        "hooks": {
            "guard": "NUCS_VERIF",
            "enable": "no source hook is needed: every seam is a module global rebound from the harness in interpreted mode "
                      "(checks export NUCS_VERIF=1 for uniformity)",
            "baseline_off_cmd": "cd /repo && /venv/bin/python -m pytest -ra -q -p no:cacheprovider --timeout=900 --continue-on-collection-errors",
            "source_commits": [],
            "add_only": True,
        },
        "engines": ENGINES,
        "checks": checks,
        "notes": "All checks run the current working tree of /repo. Genuine defects repaired in /repo are the unguarded 'fix:' "
                 "commits listed in KNOWN_FINDINGS.txt; unrepaired ones are 'known-finding:' lines there.",
        "not_applicable": [{"property_id": p, "reason": NOT_YET.get(p, "check not built yet in this session (work in progress; see DESIGN.md section 8)")}
                           for p in props if p not in CHECKS],
    }
    with open(os.path.join(VERIF, "MANIFEST.json"), "w") as f:
        json.dump(man, f, indent=1)
    return man


if __name__ == "__main__":
    m = build()
    print("checks:", [c["property_id"] for c in m["checks"]], "n/a:", [c["property_id"] for c in m["not_applicable"]])
