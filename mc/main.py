"""Entry point: python -m mc.main <id> <tier> [--replay file]"""
import importlib
import json
import os
import sys
import time

from mc import env  # noqa: F401  (must come first)


def main(argv):
    if len(argv) < 2:
        print("usage: check <id> quick|thorough [--replay <file>]", file=sys.stderr)
        return 2
    prop = argv[0]
    tier = os.environ.get("VERIF_TIER") if argv[1] not in ("quick", "thorough") else argv[1]
    tier = tier or "quick"
    seed = int(os.environ.get("VERIF_SEED", "0") or 0)
    mod = importlib.import_module(f"mc.props.{prop}")
    if "--replay" in argv:
        path = argv[argv.index("--replay") + 1]
        entry = json.load(open(path))
        return mod.replay(entry)
    return mod.run(tier, seed)


if __name__ == "__main__":
    try:
        rc = main(sys.argv[1:])
    except SystemExit:
        raise
    except BaseException:
        import traceback

        traceback.print_exc()
        print("HARNESS-ERROR: the check itself crashed", file=sys.stderr)
        rc = 2
    sys.stdout.flush()
    sys.exit(rc)
