"""Sub-processes for compiled-mode (JIT) runs: private numba cache keyed by a hash of the nucs sources."""
import glob
import hashlib
import os
import shutil
import subprocess
import sys

from mc import env

CACHE_ROOT = os.environ.get("MC_NBCACHE_ROOT", "/tmp/mc-nbcache")


def source_hash() -> str:
    h = hashlib.sha1()
    for f in sorted(glob.glob(os.path.join(env.REPO, "nucs", "**", "*.py"), recursive=True)):
        h.update(f.encode())
        h.update(open(f, "rb").read())
    return h.hexdigest()[:16]


def cache_dir(tag="") -> str:
    """numba's cache is keyed per file and does not notice an edit of a callee in another file: one directory per
    source state; directories of other source states are removed (disk)."""
    hsh = source_hash()
    os.makedirs(CACHE_ROOT, exist_ok=True)
    for d in os.listdir(CACHE_ROOT):
        if not d.startswith(hsh):
            shutil.rmtree(os.path.join(CACHE_ROOT, d), ignore_errors=True)
    d = os.path.join(CACHE_ROOT, hsh + tag)
    os.makedirs(d, exist_ok=True)
    return d


def child_env(compiled: bool, extra=None, tag=""):
    e = dict(os.environ)
    e.pop("NUMBA_DISABLE_JIT", None)
    e["PYTHONPATH"] = env.VERIF + os.pathsep + env.REPO
    e["PYTHONHASHSEED"] = "0"
    e["MC_NPROC"] = "1"
    if compiled:
        e["MC_COMPILED"] = "1"
        e["NUMBA_CACHE_DIR"] = cache_dir(tag)
    else:
        e.pop("MC_COMPILED", None)
        e["NUMBA_DISABLE_JIT"] = "1"
    if extra:
        e.update(extra)
    return e


def run_module(module, args, compiled, extra_env=None, timeout=1800, tag=""):
    p = subprocess.run([sys.executable, "-B", "-m", module] + [str(a) for a in args], env=child_env(compiled, extra_env, tag),
                       capture_output=True, text=True, timeout=timeout, cwd=env.VERIF)
    return p.returncode, p.stdout, p.stderr


def popen_module(module, args, compiled, extra_env=None, tag=""):
    return subprocess.Popen([sys.executable, "-B", "-m", module] + [str(a) for a in args], env=child_env(compiled, extra_env, tag),
                            stdout=subprocess.PIPE, stderr=subprocess.PIPE, text=True, cwd=env.VERIF)
