"""Shared driver for the SolveMC-based properties: shards the universe over the pool, one judge per property."""
from collections import Counter

from mc import solvemc as S, universe as U
from mc.runner import Acc, chunks, pmap


def short(spec):
    return {k: spec[k] for k in ("doms", "vars", "cons", "tag", "decision", "api") if k in spec}


def witness(spec, cfg, **kw):
    d = {"spec": short(spec), "cfg": list(cfg)}
    if "costs" in spec:
        d["spec"]["costs"] = spec["costs"]
    d.update(kw)
    return d


def family_of(spec):
    return spec["tag"].split(":")[0]


def con_types(spec):
    return "+".join(sorted({c[0] for c in spec["cons"]})) or "none"


def sol_ok(spec, x):
    """C01 oracle for one vector; returns None or a short reason."""
    if len(x) != len(spec["vars"]):
        return "wrong-length"
    for j, (d, off) in enumerate(spec["vars"]):
        lo, hi = spec["doms"][d]
        if not (lo + off <= x[j] <= hi + off):
            return "outside-domain"
    first = {}
    for j, (d, off) in enumerate(spec["vars"]):
        if d in first:
            j0, off0 = first[d]
            if x[j] - x[j0] != off - off0:
                return "offset-mismatch"
        else:
            first[d] = (j, off)
    from mc import contracts as K

    for typ, vs, params in spec["cons"]:
        if not K.PRED[typ](tuple(x[v] for v in vs), tuple(params)):
            return f"violates-{typ}"
    return None


def run_units(unit_fn, tier, seed, families=U.ALL, chunk=40, filt=None):
    import random

    specs = U.universe(tier, families)
    if filt:
        specs = [s for s in specs if filt(s)]
    heavy = [s for s in specs if family_of(s) in ("F3", "F4")]
    light = [s for s in specs if family_of(s) not in ("F3", "F4")]
    heavy.sort(key=lambda s: -U.n_assignments(s) * max(1, len(s["cons"])))
    random.Random(seed).shuffle(light)
    units = [(tier, [s]) for s in heavy] + [(tier, c) for c in chunks(light, chunk)]
    return pmap(unit_fn, units, None), len(specs)
