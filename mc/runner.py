"""
Shared plumbing: accumulators, the process pool, violation bookkeeping, evidence and replay files.
"""
import hashlib
import json
import multiprocessing as mp
import os
import random
import signal
import sys
import time
import traceback
from collections import Counter
from typing import Any, Callable, Dict, List

from mc import env

MAX_WITNESSES = 3
MAX_PRINTED = 12
UNIT_ALARM_S = int(os.environ.get("MC_UNIT_ALARM", "600"))


def _keep_smallest(lst, w):
    """Keep the MAX_WITNESSES smallest witnesses (shortest counterexamples first)."""
    if w in lst:
        return
    lst.append(w)
    lst.sort(key=lambda x: (len(repr(x)), repr(x)))
    del lst[MAX_WITNESSES:]


class Acc:
    """Mergeable result of a work unit."""

    def __init__(self):
        self.c: Counter = Counter()  # integer counters
        self.viol: Dict[str, Dict[str, Any]] = {}  # key -> {count, witnesses, detail}
        self.samples: List[Any] = []
        self.sets: Dict[str, set] = {}  # named sets of small hashables (distinct outcomes etc.)
        self.caps: List[str] = []
        self.maxes: Counter = Counter()

    def violation(self, key: str, witness: Dict[str, Any], detail: str = ""):
        v = self.viol.setdefault(key, {"count": 0, "witnesses": [], "detail": detail})
        v["count"] += 1
        _keep_smallest(v["witnesses"], witness)

    def sample(self, s, cap=3):
        if len(self.samples) < cap:
            self.samples.append(s)

    def add(self, name: str, item):
        self.sets.setdefault(name, set()).add(item)

    def mx(self, name: str, v: int):
        if v > self.maxes[name]:
            self.maxes[name] = v

    def merge(self, o: "Acc"):
        self.c.update(o.c)
        for k, v in o.viol.items():
            m = self.viol.setdefault(k, {"count": 0, "witnesses": [], "detail": v["detail"]})
            m["count"] += v["count"]
            for w in v["witnesses"]:
                _keep_smallest(m["witnesses"], w)
        for s in o.samples:
            if len(self.samples) < 8:
                self.samples.append(s)
        for k, s in o.sets.items():
            self.sets.setdefault(k, set()).update(s)
        self.caps.extend(o.caps)
        for k, v in o.maxes.items():
            self.mx(k, v)
        return self


class HarnessError(Exception):
    """The machinery itself failed (exit 2, never a verdict)."""


def _alarm(signum, frame):
    raise TimeoutError("unit wall-clock cap")


def _run_unit(args):
    func, unit = args
    signal.signal(signal.SIGALRM, _alarm)
    signal.alarm(UNIT_ALARM_S)
    try:
        return func(unit)
    except TimeoutError:
        a = Acc()
        a.caps.append(f"unit {unit!r:.120} hit the {UNIT_ALARM_S}s wall-clock cap")
        return a
    except BaseException:
        a = Acc()
        a.c["harness_errors"] += 1
        a.caps.append("HARNESS " + traceback.format_exc()[-1500:])
        return a
    finally:
        signal.alarm(0)


def pmap(func: Callable, units: List[Any], seed: int = 0, nproc: int = None, chunksize: int = 1) -> Acc:
    """Run func over all units on a fork pool; the seed only rotates the order of the units."""
    units = list(units)
    if seed is not None:
        random.Random(seed).shuffle(units)
    total = Acc()
    nproc = nproc or env.NPROC
    if nproc <= 1 or len(units) <= 1:
        for u in units:
            total.merge(_run_unit((func, u)))
        return total
    ctx = mp.get_context("fork")
    with ctx.Pool(min(nproc, len(units))) as pool:
        for a in pool.imap_unordered(_run_unit, [(func, u) for u in units], chunksize=chunksize):
            total.merge(a)
    return total


def chunks(seq, size):
    seq = list(seq)
    return [seq[i : i + size] for i in range(0, len(seq), size)]


def jsonable(o):
    import numpy as np

    if isinstance(o, dict):
        return {str(k): jsonable(v) for k, v in o.items()}
    if isinstance(o, (list, tuple, set, frozenset)):
        return [jsonable(v) for v in o]
    if isinstance(o, (np.integer,)):
        return int(o)
    if isinstance(o, (np.bool_,)):
        return bool(o)
    if isinstance(o, np.ndarray):
        return o.tolist()
    if isinstance(o, (str, int, float, bool)) or o is None:
        return o
    return repr(o)


def key_hash(key: str) -> str:
    return hashlib.sha1(key.encode()).hexdigest()[:12]


OUT_DIR = os.environ.get("MC_OUT_DIR", env.VERIF)  # evidence/ and replays/ (redirected for scratch runs against a copy of the repo)


def write_replay(prop: str, key: str, entry: Dict[str, Any]) -> str:
    d = os.path.join(OUT_DIR, "replays", prop)
    os.makedirs(d, exist_ok=True)
    path = os.path.join(d, key_hash(key) + ".json")
    with open(path, "w") as f:
        json.dump(jsonable({"property": prop, "key": key, **entry}), f, indent=1)
    return path


def load_known_findings(prop: str):
    path = os.path.join(env.VERIF, "KNOWN_FINDINGS.txt")
    known = {}
    if os.path.exists(path):
        for line in open(path):
            line = line.strip()
            if not line.startswith("known-finding:"):
                continue
            head, _, desc = line[len("known-finding:") :].partition("::")
            fields = dict(tok.split("=", 1) for tok in head.split() if "=" in tok)
            if fields.get("property") == prop and "key" in fields:
                known[fields["key"]] = desc.strip()
    return known


def finish(prop: str, tier: str, seed: int, level: str, acc: Acc, coverage: Dict[str, Any], assumptions: List[str],
           t0: float, vacuity: Dict[str, int] = None) -> int:
    """Write evidence, print findings / violations, return the exit code."""
    known = load_known_findings(prop)
    new_keys = [k for k in acc.viol if k not in known]
    known_keys = [k for k in acc.viol if k in known]
    harness_errors = acc.c.get("harness_errors", 0)
    coverage = dict(coverage)
    coverage.setdefault("samples", acc.samples[:5])
    coverage["caps_hit"] = [c for c in acc.caps if not c.startswith("HARNESS")][:10]
    if acc.c.get("aborted_skipped", 0):
        coverage["caps_hit"].append(f"{acc.c['aborted_skipped']} runs skipped after repeated exhausted step budgets (non-terminating tree)")
    if coverage["caps_hit"]:
        coverage["exhaustive"] = False
    coverage["distinct_outcomes"] = {k: len(v) for k, v in acc.sets.items()}
    coverage["maxima"] = dict(acc.maxes)
    coverage["counters"] = {k: int(v) for k, v in sorted(acc.c.items())}
    coverage["violation_keys"] = {k: acc.viol[k]["count"] for k in sorted(acc.viol)}
    coverage["known_findings_matched"] = sorted(known_keys)
    ev = {
        "property_id": prop,
        "tier": tier,
        "seed": seed,
        "level": level,
        "coverage": jsonable(coverage),
        "assumptions": assumptions,
        "wall_s": round(time.time() - t0, 2),
        "violations": len(new_keys),
    }
    os.makedirs(os.path.join(OUT_DIR, "evidence"), exist_ok=True)
    with open(os.path.join(OUT_DIR, "evidence", prop + ".json"), "w") as f:
        json.dump(ev, f, indent=1)
    for k in sorted(known_keys):
        print(f"KNOWN-FINDING: property={prop} key={k} count={acc.viol[k]['count']} :: {known[k]}")
    for n_printed, k in enumerate(sorted(new_keys)):
        v = acc.viol[k]
        path = write_replay(prop, k, {"detail": v["detail"], "count": v["count"], "witnesses": v["witnesses"]})
        if n_printed == MAX_PRINTED:
            print(f"  ... {len(new_keys) - MAX_PRINTED} more violation keys (replays written, listed in the evidence file)")
        if n_printed >= MAX_PRINTED:
            continue
        print(f"VIOLATION property={prop} replay={path}")
        print(f"  key={k} count={v['count']} detail={v['detail']}")
        print(f"  witness={json.dumps(jsonable(v['witnesses'][0]))[:600]}")
    if harness_errors:
        for c in acc.caps:
            if c.startswith("HARNESS"):
                print(c, file=sys.stderr)
        print(f"HARNESS-ERROR property={prop}: {harness_errors} work unit(s) crashed inside the machinery", file=sys.stderr)
        return 2
    if vacuity and not new_keys:
        for name, minimum in vacuity.items():
            got = coverage.get(name, acc.c.get(name, len(acc.sets.get(name, ()))))
            if got < minimum:
                print(f"HARNESS-ERROR property={prop}: vacuity guard {name}={got} < {minimum}", file=sys.stderr)
                return 2
    print(
        f"{prop} {tier}: evaluations={coverage.get('evaluations', coverage.get('transitions'))} "
        f"violations={len(new_keys)} known={len(known_keys)} wall={ev['wall_s']}s"
    )
    return 1 if new_keys else 0
