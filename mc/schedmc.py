"""
SchedMC (DESIGN 2.6): the real MultiprocessingSolver parent under a controlled scheduler.

`nucs.solvers.multiprocessing_solver.Process` and `.Queue` are rebound to fakes.  A fake process deep-copies the bound
solver (what fork does), runs the *real* worker target to completion and buffers its puts; workers are deterministic and
share nothing but the append-only queue, so running each to completion and then interleaving deliveries reaches exactly the
behaviours of concurrent workers (each worker's stream is computed twice to check determinism).  The scheduler owns every
remaining source of nondeterminism of the parent:
  * which producer's next message a `get` delivers (per-producer FIFO),
  * whether a `get(timeout)` times out although messages of running workers are still to come (costs one deviation),
  * when a worker is observed to have terminated (`is_alive`, `exitcode`, `join(timeout)`): default "already terminated",
    "still running" costs one deviation,
  * faults: worker w dies after j of its messages (its stream is truncated, exit code -9).
Exploration is stateless with prefix replay, bounded by the number of deviations; executions run to completion.
A blocking read that nothing can satisfy is a deadlock; polling more than POLL_LIMIT times without progress is a hang.
"""
import copy
import queue as pyqueue
from typing import Any, Dict, List, Optional

import numpy as np

from mc import env  # noqa
from mc.runner import HarnessError
from nucs.solvers import multiprocessing_solver as MS
from nucs.solvers.backtrack_solver import BacktrackSolver

POLL_LIMIT = 40


class Deadlock(Exception):
    pass


class Hang(Exception):
    pass


class Unmodelled(HarnessError):
    pass


class Sched:
    """Replays a prefix of choices, then takes choice 0; records every choice point."""

    def __init__(self, prefix):
        self.prefix = list(prefix)
        self.trace = []  # (labels, costs, chosen)

    def choose(self, options):
        """options: list of (label, cost). Returns the chosen label."""
        i = len(self.trace)
        if i < len(self.prefix):
            idx = self.prefix[i]
            if idx >= len(options):
                raise HarnessError(f"replay divergence at choice {i}: {idx} not in {options}")
        else:
            idx = 0
        self.trace.append(([o[0] for o in options], [o[1] for o in options], idx))
        return options[idx][0]


class World:
    """One execution: worker streams (precomputed), fault plan, scheduler."""

    def __init__(self, n, cache, faults, sched, pickling):
        self.streams = [[] for _ in range(n)]  # per producer: list of (proc_idx, solution|None, stats_at_put, final_stats)
        self.cache = cache              # (solver identity, target name, args) -> stream of the real target
        self.cut = {w: j for w, j in faults}  # worker -> number of messages it manages to put before dying
        self.sched = sched
        self.pickling = pickling
        self.n = n
        self.delivered = [0] * self.n
        self.finished_observed = [False] * self.n
        self.started = [False] * self.n
        self.polls_without_progress = 0
        self.silence = 0  # consecutive timeouts: a quiet period of two polls is one deviation, not two
        self.events = []  # readable trace
        self.terminated = [False] * self.n

    def avail(self, w):
        return min(len(self.streams[w]), self.cut.get(w, 1 << 30)) if self.started[w] else 0

    def pending(self, w):
        return self.avail(w) - self.delivered[w]

    def crashed(self, w):
        return w in self.cut

    def message(self, w, k):
        proc_idx, sol, stats_put, stats_final, _true_final = self.streams[w][k]
        stats = stats_put if self.pickling == "eager" else (stats_final if not self.crashed(w) else self.streams[w][self.avail(w) - 1][2])
        return (proc_idx, None if sol is None else sol.copy(), stats.copy())

    # ---- queue ---------------------------------------------------------------------------------------------------
    def q_get(self, block=True, timeout=None):
        producers = [w for w in range(self.n) if self.pending(w) > 0]
        options = [(("deliver", w), 0) for w in producers]
        can_timeout = block and timeout is not None or not block
        if can_timeout:
            # a message that is already in the pipe is returned at once: a timeout needs every pending message to belong
            # to a worker not yet observed as terminated (its put may not have happened yet)
            if not producers:
                options.append((("empty",), 0))
            elif all(not self.finished_observed[w] for w in producers):
                options.append((("empty",), 0 if self.silence == 1 else 1))
        if not options:
            self.events.append("DEADLOCK: blocking get() with no message that can ever arrive")
            raise Deadlock("blocking get() with nothing deliverable")
        choice = self.sched.choose(options)
        if choice[0] == "empty":
            self.silence += 1
            self.polls_without_progress += 1
            self.events.append("get -> Empty")
            if self.polls_without_progress > POLL_LIMIT:
                raise Hang(f"{POLL_LIMIT} polls without progress")
            raise pyqueue.Empty()
        w = choice[1]
        msg = self.message(w, self.delivered[w])
        self.delivered[w] += 1
        self.silence = 0
        self.polls_without_progress = 0
        self.events.append(f"get -> w{w}:{'marker' if msg[1] is None else 'sol'}")
        return msg

    def q_empty(self):
        producers = [w for w in range(self.n) if self.pending(w) > 0]
        if not producers:
            return True
        if all(not self.finished_observed[w] for w in producers):
            return self.sched.choose([(("nonempty",), 0), (("empty",), 1)])[0] == "empty"
        return False

    # ---- processes -----------------------------------------------------------------------------------------------
    def observe_finished(self, w):
        """Has worker w terminated (normally or not) as far as the parent can see?"""
        if self.finished_observed[w] or self.terminated[w]:
            return True
        if not self.started[w]:
            return False
        # a worker whose next message has just been waited for in vain (quiet period) is plausibly still running: that
        # observation belongs to the same deviation as the quiet period itself
        # observation: during the quiet period "running" is the default answer for such a worker and "finished" the deviation
        slow = self.silence >= 1 and self.pending(w) > 0
        ans = self.sched.choose([(("running", w), 0), (("finished", w), 1)] if slow else [(("finished", w), 0), (("running", w), 1)])
        if ans[0] == "finished":
            self.finished_observed[w] = True
            self.events.append(f"w{w} observed terminated")
            return True
        self.events.append(f"w{w} observed running")
        self.polls_without_progress += 1
        if self.polls_without_progress > POLL_LIMIT:
            raise Hang(f"{POLL_LIMIT} polls without progress")
        return False


class FakeQueue:
    def __init__(self, *a, **k):
        self.world: World = CURRENT["world"]
        CURRENT["queues"].append(self)

    def get(self, block=True, timeout=None):
        return self.world.q_get(block, timeout)

    def get_nowait(self):
        return self.world.q_get(False, None)

    def empty(self):
        return self.world.q_empty()

    def qsize(self):
        return sum(self.world.pending(w) for w in range(self.world.n))

    def put(self, *a, **k):
        raise Unmodelled("the parent puts into the solution queue")

    def close(self):
        pass

    def join_thread(self):
        pass

    def cancel_join_thread(self):
        pass

    def __getattr__(self, name):
        raise Unmodelled(f"Queue.{name} is not modelled by SchedMC")


class FakeProcess:
    _count = 0

    def __init__(self, group=None, target=None, name=None, args=(), kwargs=None, daemon=None):
        self.world: World = CURRENT["world"]
        self.target, self.args, self.kwargs = target, args, kwargs or {}
        self.daemon = daemon
        self.name = name or "FakeProcess"
        self.idx = None
        self.pid = None

    def start(self):
        w = CURRENT["next_proc"]
        CURRENT["next_proc"] += 1
        self.idx = w
        self.pid = 1000 + w
        if w >= self.world.n:
            raise HarnessError("more processes started than solvers")
        # the child runs the real target the parent passed, with the arguments the parent passed
        solver = getattr(self.target, "__self__", None)
        name = getattr(self.target, "__name__", None)
        if solver is None or name is None or self.kwargs:
            raise Unmodelled("Process target is not a bound solver method")
        args = tuple(a for a in self.args if not isinstance(a, FakeQueue))
        if len(args) + 1 != len(self.args):
            raise Unmodelled("the worker does not receive exactly one queue")
        key = (id(solver), name, args)
        if key not in self.world.cache:
            self.world.cache[key] = worker_stream_checked(solver, name, args)
        self.world.streams[w] = self.world.cache[key]
        CURRENT["launches"].append((w, name, args))
        self.world.started[w] = True

    def is_alive(self):
        if self.idx is None:
            return False
        return not self.world.observe_finished(self.idx)

    @property
    def exitcode(self):
        if self.idx is None or not self.world.observe_finished(self.idx):
            return None
        if self.world.terminated[self.idx] and not self.world.crashed(self.idx):
            return -15
        return -9 if self.world.crashed(self.idx) else 0

    def join(self, timeout=None):
        if self.idx is None:
            return
        if timeout is None:
            self.world.finished_observed[self.idx] = True
            return
        self.world.observe_finished(self.idx)

    def terminate(self):
        if self.idx is not None:
            self.world.terminated[self.idx] = True
            self.world.events.append(f"terminate w{self.idx}")

    kill = terminate

    def close(self):
        pass

    def __getattr__(self, name):
        raise Unmodelled(f"Process.{name} is not modelled by SchedMC")


CURRENT: Dict[str, Any] = {"world": None, "next_proc": 0, "launches": [], "queues": []}


class RecordingQueue:
    def __init__(self, stats_ref):
        self.items = []
        self.stats_ref = stats_ref

    def put(self, msg, *a, **k):
        proc_idx, sol, stats = msg
        self.items.append((proc_idx, None if sol is None else np.array(sol, copy=True), np.array(stats, copy=True), stats))


WORKER_BUDGET_HIT_LIMIT = 4
_worker_budget_hits = [0]


def worker_stream(solver: BacktrackSolver, target_name: str, args) -> List:
    """Runs the real worker target on a deep copy of the solver (what fork gives the child) and returns its messages."""
    from mc import budget, solvemc

    child = copy.deepcopy(solver)
    q = RecordingQueue(child.statistics)
    solvemc.ensure_watch()
    # same calibrated shape as SolveMC's step budget (25 x the largest terminating run of the quick universe); a tree on which
    # workers do not terminate would otherwise cost minutes per case: after WORKER_BUDGET_HIT_LIMIT exhausted budgets in this
    # process the remaining worker runs fail at once (never happens where the properties hold)
    n_assign = 1
    for lo, hi in child.problem.shr_domains_lst:
        n_assign = min(n_assign * max(1, int(hi) - int(lo) + 1), 10_000)
    if _worker_budget_hits[0] >= WORKER_BUDGET_HIT_LIMIT:
        raise budget.BudgetExceeded("worker run skipped after repeated exhausted step budgets in this process")
    budget.start(min(20_000_000, 600_000 + 12_000 * n_assign))
    try:
        getattr(child, target_name)(*args, q)
    except budget.BudgetExceeded:
        _worker_budget_hits[0] += 1
        raise
    finally:
        budget.stop()
    final = child.statistics.copy()  # the worker's final statistics (what the property calls so)
    # 4th field: the content, at the end of the process, of the very object that was put (what a lazily pickling feeder thread
    # may send at the latest); 5th field: the worker's true final statistics
    return [(p, s, st, np.array(obj, copy=True), final) for p, s, st, obj in q.items]


def worker_stream_checked(solver, name, args):
    """The message stream of the real target, computed twice (determinism check)."""
    a = worker_stream(solver, name, args)
    b = worker_stream(solver, name, args)
    if len(a) != len(b) or any(x[0] != y[0] or (x[1] is None) != (y[1] is None) or (x[1] is not None and not np.array_equal(x[1], y[1]))
                               or not np.array_equal(x[2], y[2]) for x, y in zip(a, b)):
        raise HarnessError("a worker is not deterministic: two runs of the same target gave different streams")
    return a


class Result:
    def __init__(self):
        self.yielded = []
        self.value = None
        self.error = None     # exception raised to the caller (allowed outcome under faults)
        self.hang = None      # Deadlock / Hang
        self.stats = None
        self.events = []
        self.trace = None
        self.launch_ok = True
        self.undelivered = 0


class OrderSched(Sched):
    """Follows a given delivery order of producers (an order observed with real processes); every other choice is the default."""

    def __init__(self, order):
        super().__init__([])
        self.order = list(order)

    def choose(self, options):
        idx = 0
        deliveries = [k for k, o in enumerate(options) if o[0][0] == "deliver"]
        if deliveries:
            if not self.order:
                raise HarnessError("conformance replay: the model offers a delivery the real run did not make")
            want = self.order[0]
            match = [k for k in deliveries if options[k][0][1] == want]
            if not match:
                raise HarnessError(f"conformance replay: real delivery from worker {want} is not enabled in the model: {options}")
            idx = match[0]
            self.order.pop(0)
        self.trace.append(([o[0] for o in options], [o[1] for o in options], idx))
        return options[idx][0]


def run_real(solvers, mode, var, timeout=60):
    """The same call with the real multiprocessing library (fork); the parent's queue is wrapped to log what it receives."""
    import multiprocessing
    import signal

    log = []

    class LoggingQueue:
        def __init__(self, *a, **k):
            self.q = multiprocessing.Queue(*a, **k)

        def get(self, *a, **k):
            m = self.q.get(*a, **k)
            log.append((int(m[0]), None if m[1] is None else tuple(int(v) for v in m[1]), np.array(m[2], copy=True)))
            return m

        def put(self, *a, **k):
            return self.q.put(*a, **k)

        def __getattr__(self, name):
            return getattr(self.q, name)

    real_Q = MS.Queue
    MS.Queue = LoggingQueue
    res = Result()

    def on_alarm(*_):
        raise TimeoutError("real-process run exceeded its deadline")

    old = signal.signal(signal.SIGALRM, on_alarm)
    signal.alarm(timeout)
    try:
        mp = MS.MultiprocessingSolver(solvers, log_level="ERROR")
        if mode == "solve":
            for sol in mp.solve():
                res.yielded.append(tuple(int(v) for v in sol))
        else:
            r = mp.minimize(var) if mode == "min" else mp.maximize(var)
            res.value = None if r is None else tuple(int(v) for v in r)
        res.stats = mp.get_statistics()
    except Exception as e:  # noqa
        res.error = f"{type(e).__name__}: {e}"
    finally:
        signal.alarm(0)
        signal.signal(signal.SIGALRM, old)
        MS.Queue = real_Q
    res.log = log
    return res


def run_parent(solvers, mode, var, cache, faults, prefix, pickling, reuse=False, sched=None) -> Result:
    sched = sched or Sched(prefix)
    world = World(len(solvers), cache, faults, sched, pickling)
    real_P, real_Q = MS.Process, MS.Queue
    MS.Process, MS.Queue = FakeProcess, FakeQueue
    res = Result()
    try:
        mp = MS.MultiprocessingSolver(solvers, log_level="ERROR")
        if reuse:
            # the same MultiprocessingSolver object has already been used for one complete, fault-free run
            CURRENT.update(world=World(len(solvers), cache, [], Sched([]), pickling), next_proc=0, launches=[], queues=[])
            if mode == "solve":
                res.first_run = [tuple(int(v) for v in sol) for sol in mp.solve()]
            else:
                r0 = mp.minimize(var) if mode == "min" else mp.maximize(var)
                res.first_run = None if r0 is None else tuple(int(v) for v in r0)
        CURRENT.update(world=world, next_proc=0, launches=[], queues=[])
        try:
            if mode == "solve":
                for sol in mp.solve():
                    res.yielded.append(tuple(int(v) for v in sol))
            else:
                r = mp.minimize(var) if mode == "min" else mp.maximize(var)
                res.value = None if r is None else tuple(int(v) for v in r)
            try:
                res.stats = mp.get_statistics()
            except Exception as e:  # noqa
                res.stats = f"get_statistics raised {type(e).__name__}: {e}"
        except (Deadlock, Hang) as e:
            res.hang = f"{type(e).__name__}: {e}"
        except HarnessError:
            raise
        except Exception as e:  # noqa
            res.error = f"{type(e).__name__}: {e}"
    finally:
        MS.Process, MS.Queue = real_P, real_Q
    res.events = world.events
    res.trace = sched.trace
    res.undelivered = sum(world.pending(w) for w in range(world.n))
    res.world = world
    return res


def explore(run_fn, bound, max_execs=200000):
    """Deviation-bounded stateless exploration. run_fn(prefix) -> Result (with .trace). Yields every Result."""
    stack = [[]]
    n = 0
    while stack:
        prefix = stack.pop()
        res = run_fn(prefix)
        n += 1
        yield res
        if n >= max_execs:
            res.capped = True
            return
        trace = res.trace
        choices = [t[2] for t in trace]
        cost = 0
        costs_before = []
        for labels, costs, chosen in trace:
            costs_before.append(cost)
            cost += costs[chosen]
        for i in range(len(prefix), len(trace)):
            labels, costs, chosen = trace[i]
            for alt in range(len(labels)):
                if alt == chosen:
                    continue
                if costs_before[i] + costs[alt] <= bound:
                    stack.append(choices[:i] + [alt])
