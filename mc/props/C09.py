"""C09 Branching partitions the chosen domain; backtracking restores the saved state (StackMC).

Explicit-state search over the real value heuristics, add_propagators (called as solve_one does) and
choice_points.backtrack, with no propagation: every sequence of {branch(d,h), backtrack, disable(p)} up to a depth, from
every initial shape, in lock-step with a reference frame stack.  Three harness watchers per domain (MIN-only, MAX-only,
GROUND-only trigger masks) make the announced events observable in the real propagation queue."""
import itertools
import time

import numpy as np

from mc import env  # noqa
from mc.runner import Acc, finish, pmap, chunks
from nucs.constants import EVENT_MASK_GROUND, EVENT_MASK_MAX, EVENT_MASK_MIN
from nucs.heuristics import heuristics as H
from nucs.propagators import propagators as P
from nucs.solvers import choice_points as CP

PROP = "C09"
HEUR = {"min": H.DOM_HEURISTIC_MIN_VALUE, "max": H.DOM_HEURISTIC_MAX_VALUE, "split_low": H.DOM_HEURISTIC_SPLIT_LOW,
        "mid": H.DOM_HEURISTIC_MID_VALUE, "min_cost": H.DOM_HEURISTIC_MIN_COST}


def required_events(orig, new):
    ev = 0
    if new[0] != orig[0]:
        ev |= EVENT_MASK_MIN
    if new[1] != orig[1]:
        ev |= EVENT_MASK_MAX
    if new[0] == new[1] and ev:
        ev |= EVENT_MASK_GROUND
    return ev


class World:
    def __init__(self, doms, height, table=None):
        self.nd = len(doms)
        self.np_ = 3 * self.nd
        self.H = height
        self.stack = np.zeros((height, self.nd, 2), dtype=np.int32)
        self.ne = np.zeros((height, self.np_), dtype=np.bool_)
        self.du = np.zeros((height, 2), dtype=np.uint16)
        self.top = np.ones(1, dtype=np.uint8)
        CP.cp_init(self.stack, self.ne, self.du, self.top, np.array(doms))
        self.trig = np.zeros(self.np_, dtype=np.bool_)
        self.stats = np.zeros(13, dtype=np.int64)
        self.triggers = np.zeros((self.nd, self.np_), dtype=np.uint8)
        for d in range(self.nd):
            self.triggers[d, 3 * d] = EVENT_MASK_MIN
            self.triggers[d, 3 * d + 1] = EVENT_MASK_MAX
            self.triggers[d, 3 * d + 2] = EVENT_MASK_GROUND
        self.params = np.array(table if table is not None else [[]], dtype=np.int64)
        # reference model
        self.cur = [tuple(d) for d in doms]
        self.flags = [True] * self.np_
        self.frames = []  # (domains, flags, dom_idx, required_events)

    def snap(self):
        t = int(self.top[0])
        return (t, self.stack[: t + 1].copy(), self.ne[: t + 1].copy(), self.du[: t + 1].copy(), self.trig.copy(),
                list(self.cur), list(self.flags), list(self.frames), self.stats.copy())

    def restore(self, s):
        t, st, ne, du, trig, cur, flags, frames, stats = s
        self.top[0] = t
        self.stack[: t + 1] = st
        self.ne[: t + 1] = ne
        self.du[: t + 1] = du
        self.trig[:] = trig
        self.cur, self.flags, self.frames = list(cur), list(flags), list(frames)
        self.stats[:] = stats

    def canon(self):
        t = int(self.top[0])
        return (t, self.stack[: t + 1].tobytes(), self.ne[: t + 1].tobytes(), self.du[:t].tobytes(), self.trig.tobytes())

    def enabled_watchers(self, d, events, flags):
        return {3 * d + i for i, m in enumerate((EVENT_MASK_MIN, EVENT_MASK_MAX, EVENT_MASK_GROUND)) if (events & m) and flags[3 * d + i]}

    # ---- lock-step comparison -----------------------------------------------------------------------------------
    def compare(self, where):
        t = int(self.top[0])
        if t != len(self.frames):
            return f"{where}:stack-height {t} != reference {len(self.frames)}"
        if [tuple(int(v) for v in r) for r in self.stack[t]] != self.cur:
            return f"{where}:current-domains {self.stack[t].tolist()} != reference {self.cur}"
        if [bool(x) for x in self.ne[t]] != self.flags:
            return f"{where}:current-flag-row differs from reference"
        for lvl, (doms, flags, d, ev) in enumerate(self.frames):
            if [tuple(int(v) for v in r) for r in self.stack[lvl]] != doms:
                return f"{where}:saved-domains at level {lvl} {self.stack[lvl].tolist()} != reference {doms}"
            if [bool(x) for x in self.ne[lvl]] != flags:
                return f"{where}:saved-flag-row at level {lvl} differs from reference"
        return None

    # ---- operations ---------------------------------------------------------------------------------------------
    def op_branch(self, d, h):
        old_top = int(self.top[0])
        orig = self.cur[d]
        trig_before = self.trig.copy()
        events = int(H.DOM_HEURISTIC_FCTS[HEUR[h]](self.params, self.stack, self.ne, self.du, self.top, d))
        P.add_propagators(self.trig, self.ne[int(self.top[0])], self.triggers, d, events)
        new_top = int(self.top[0])
        if new_top <= old_top:
            return f"{h}:no-choice-point-created"
        parts = [tuple(int(v) for v in self.stack[lvl, d]) for lvl in range(old_top, new_top + 1)]
        if any(a > b for a, b in parts):
            return f"{h}:empty-part {parts} of {orig}"
        covered = sorted(v for a, b in parts for v in range(a, b + 1))
        if len(set(covered)) != len(covered):
            return f"{h}:overlapping-parts {parts} of {orig}"
        if covered != list(range(orig[0], orig[1] + 1)):
            return f"{h}:parts-do-not-cover {parts} of {orig}"
        for lvl in range(old_top, new_top + 1):
            for e in range(self.nd):
                if e != d and tuple(int(v) for v in self.stack[lvl, e]) != self.cur[e]:
                    return f"{h}:other-domain-touched at level {lvl}"
        # announced events: branch taken
        need = required_events(orig, parts[-1])
        if need & ~events:
            return f"{h}:branch-event-missing need={need} got={events} ({orig}->{parts[-1]})"
        exp_min = set(np.flatnonzero(trig_before)) | self.enabled_watchers(d, need, self.flags)
        exp_max = set(np.flatnonzero(trig_before)) | self.enabled_watchers(d, 7, self.flags)
        got = set(int(i) for i in np.flatnonzero(self.trig))
        if not (exp_min <= got <= exp_max):
            return f"{h}:queue-after-branch {sorted(got)} not within [{sorted(exp_min)}, {sorted(exp_max)}]"
        # recorded replay events: each alternative
        for i, lvl in enumerate(range(old_top, new_top)):
            need_alt = required_events(orig, parts[i])
            rec_d, rec_ev = int(self.du[lvl, 0]), int(self.du[lvl, 1])
            if rec_d != d:
                return f"{h}:recorded-domain-index {rec_d} != {d} at level {lvl}"
            if need_alt & ~rec_ev:
                return f"{h}:alternative-event-missing need={need_alt} recorded={rec_ev} ({orig}->{parts[i]})"
        # reference model update
        for i, lvl in enumerate(range(old_top, new_top)):
            doms = list(self.cur)
            doms[d] = parts[i]
            self.frames.append((doms, list(self.flags), d, required_events(orig, parts[i])))
        self.cur[d] = parts[-1]
        return self.compare(f"{h}:after-branch")

    def op_backtrack(self):
        trig_before = self.trig.copy()
        nbt = int(self.stats[9])
        ok = bool(CP.backtrack(self.stats, self.ne, self.du, self.top, self.trig, self.triggers))
        if not self.frames:
            if ok:
                return "backtrack:succeeds-on-empty-stack"
            if not np.array_equal(trig_before, self.trig):
                return "backtrack:failed-backtrack-changes-queue"
            return self.compare("backtrack:after-failed")
        if not ok:
            return "backtrack:fails-with-pending-alternative"
        doms, flags, d, need = self.frames.pop()
        self.cur, self.flags = list(doms), list(flags)
        err = self.compare("backtrack:after")
        if err:
            return err
        exp_min = set(np.flatnonzero(trig_before)) | self.enabled_watchers(d, need, flags)
        exp_max = set(np.flatnonzero(trig_before)) | self.enabled_watchers(d, 7, flags)
        got = set(int(i) for i in np.flatnonzero(self.trig))
        if not (exp_min <= got <= exp_max):
            return f"backtrack:queue-after {sorted(got)} not within [{sorted(exp_min)}, {sorted(exp_max)}] (need={need})"
        if int(self.stats[9]) != nbt + 1:
            return "backtrack:counter-not-incremented"
        return None

    def op_disable(self, p):
        self.ne[int(self.top[0]), p] = False
        self.flags[p] = False
        return None


def explore(doms, heuristics, depth, table, acc, tag):
    height = 2 * depth + 3
    w = World(doms, height, table)
    seen = set()
    ctr = {"states": 0, "transitions": 0}

    def rec(path, remaining):
        key = (w.canon(), remaining)
        if key in seen:
            return
        seen.add(key)
        ctr["states"] += 1
        if remaining == 0:
            return
        base = w.snap()
        ops = []
        t = int(w.top[0])
        for d in range(w.nd):
            if w.cur[d][0] < w.cur[d][1]:
                for h in heuristics:
                    ops.append(("branch", d, h))
        ops.append(("backtrack",))
        for p in (0, 2, w.np_ - 1):
            if w.flags[p]:
                ops.append(("disable", p))
        for k, op in enumerate(ops):
            w.restore(base)
            # vary the queue content seen by the operation: empty, or one unrelated flag already set
            w.trig[:] = False
            if (len(path) + k) % 3 == 1:
                w.trig[w.np_ - 2] = True
            ctr["transitions"] += 1
            if op[0] == "branch":
                err = w.op_branch(op[1], op[2])
                if w.cur[op[1]][0] == w.cur[op[1]][1] if not err else False:
                    acc.c["nt_branch_instantiating"] += 1
            elif op[0] == "backtrack":
                had = bool(w.frames)
                err = w.op_backtrack()
                if had and not err:
                    acc.c["nt_backtracks_resuming"] += 1
            else:
                err = w.op_disable(op[1])
            if err:
                hname = op[2] if op[0] == "branch" else op[0]
                kind = err.split(" ")[0]
                acc.violation(f"{kind}", {"doms": [list(d) for d in doms], "table": table, "ops": [list(o) for o in path + [op]],
                                          "error": err},
                              "lock-step divergence between the real choice-point stack / heuristics and the reference frame stack")
                continue
            rec(path + [op], remaining - 1)

    rec([], depth)
    acc.c["states"] += ctr["states"]
    acc.c["transitions"] += ctr["transitions"]
    acc.c["explorations"] += 1
    acc.mx("max_states_in_one_exploration", ctr["states"])
    if not acc.samples:
        acc.sample({"doms": [list(d) for d in doms], "heuristics": list(heuristics), "depth": depth, "table": table,
                    "states": ctr["states"], "transitions": ctr["transitions"]}, cap=1)


def valid_table_row(row, lo, hi):
    # in contract iff every interval of >= 2 values of the initial domain contains a positive entry
    return all(row[v] > 0 or row[v + 1] > 0 for v in range(lo, hi))


def worlds(tier):
    th = tier == "thorough"
    depth = 7 if th else 5
    shapes = [(a, b) for a in range(-3, 4) for b in range(a + 1, 4)]
    out = []
    for s in shapes:
        out.append(([s], ("min", "max", "split_low", "mid"), depth, None))
    seconds = [(0, 1), (-1, 2)]
    for s in shapes:
        if th or (s[1] - s[0]) <= 3:
            for s2 in seconds:
                out.append(([s, s2], ("min", "max", "split_low", "mid"), depth - 1, None))
    # min_cost: non-negative domains, every small cost table incl. ties and forbidden (0) values
    for b in (1, 2, 3) + ((4,) if th else ()):
        for lo in range(0, b):
            width = b + 1
            for row in itertools.product((0, 1, 2), repeat=width):
                if valid_table_row(row, lo, b):
                    out.append(([(lo, b)], ("min_cost",), depth, [list(row)]))
    for row in itertools.product((0, 1, 2), repeat=3):
        if valid_table_row(row, 0, 2):
            out.append(([(0, 2), (0, 1)], ("min_cost", "min"), depth - 1, [list(row), [1, 1, 1]]))
    return out


def unit(u):
    tier, ws = u
    acc = Acc()
    for doms, heur, depth, table in ws:
        explore(doms, heur, depth, table, acc, "")
    return acc


def run(tier, seed):
    t0 = time.time()
    ws = worlds(tier)
    acc = pmap(unit, [(tier, c) for c in chunks(ws, 4)], seed)
    cov = {
        "states": acc.c["states"],
        "transitions": acc.c["transitions"],
        "traces_validated_against_impl": acc.c["transitions"],
        "evaluations": acc.c["transitions"],
        "distinct_nontrivial": acc.c["nt_backtracks_resuming"] + acc.c["nt_branch_instantiating"],
        "rule": "state = (real stack arrays up to the top, queue, remaining depth); transition = one real value-heuristic call + "
                "add_propagators, one real backtrack, or disabling a watcher; every transition is compared in lock-step with the "
                "reference frame stack (partition laws, untouched domains, announced/recorded events, restored domains and flag "
                "rows, queue additions); non-trivial = backtrack resuming an alternative / branch instantiating the domain",
        "initial_worlds": len(ws),
        "exhaustive": True,
        "bounds": f"tier={tier}: 1-2 shared domains, every shape [a,b] a<b over -3..3, 5 value heuristics (min_cost with every "
                  f"in-contract cost table over {{0,1,2}}), all operation sequences up to depth {7 if tier == 'thorough' else 5}",
    }
    return finish(PROP, tier, seed, "model_checking", acc, cov,
                  ["cost tables within the contract of DESIGN 2.7; over-announcing an event is not a violation"],
                  t0, vacuity={"nt_backtracks_resuming": 1000, "nt_branch_instantiating": 1000})


def replay(entry):
    rc = 0
    for wt in entry["witnesses"]:
        for _ in range(2):
            doms = [tuple(d) for d in wt["doms"]]
            w = World(doms, 2 * len(wt["ops"]) + 3, wt["table"])
            err = None
            for op in wt["ops"]:
                w.trig[:] = False
                err = w.op_branch(op[1], op[2]) if op[0] == "branch" else (w.op_backtrack() if op[0] == "backtrack" else w.op_disable(op[1]))
                if err:
                    break
            print("replay:", wt["doms"], wt["ops"], "->", err or "no violation")
            rc = rc or (1 if err else 0)
    return rc
