"""C06 A fully instantiated tuple that violates a constraint is always rejected (PropMC: every ground tuple, every box one call collapses to a point)."""
import time

from mc import propmc
from mc.runner import finish

PROP = "C06"


def run(tier, seed):
    t0 = time.time()
    acc = propmc.run(PROP, tier, seed)
    acc.merge(propmc.run_ground(PROP, tier, seed))
    calls = acc.c["calls"]
    nt = acc.c["nt_ground_violating"] + acc.c["nt_collapsed_to_point"]
    cov = {
        "states": calls,
        "transitions": calls + acc.c["second_calls"],
        "traces_validated_against_impl": calls,
        "evaluations": calls,
        "distinct_nontrivial": nt,
        "rule": "every (type, arity, params, box) of the contract table (DESIGN 2.7) is one state, one real call each; "
                "non-trivial = distinct ground tuple violating the relation, or distinct non-ground box that one call collapsed to a point",
        "exhaustive": True,
        "instances": acc.c["instances"],
        "bounds": f"tier={tier}: arity<=3-4, 3-5 values per variable, all parameter vectors of the table, all boxes; plus ground tuples "
                  "only at arity 4-10 (contracts.ground_instances; all permutations of 7-8 vertices for the circuit constraints)",
        "ground_only_calls": acc.c["ground_only_calls"],
    }
    return finish(PROP, tier, seed, "model_checking", acc, cov,
                  ["relation predicates of mc/contracts.py (written from the documentation)",
                   "interpreted mode executes the same Python source numba compiles (bound to compiled mode by C15)"],
                  t0, vacuity={"nt_ground_violating": 1000, "nt_collapsed_to_point": 1000, "ground_tuples": 10000})


def replay(entry):
    rc = 0
    for w in entry["witnesses"]:
        for _ in range(2):
            acc = propmc.replay_witness(PROP, w)
            print("replay:", w, "->", {k: v["count"] for k, v in acc.viol.items()} or "no violation")
            if acc.viol:
                rc = 1
    return rc
