"""C04 Propagation and search terminate on every finite problem.
(a) PropMC: every single filtering call under a deterministic jump budget (infeasible / zero capacities included);
(b) SolveMC: every problem of U x configurations x {enumerate, minimise, maximise} with the executions-per-pass bound
    (P+1)*(D+1), a whole-run jump budget, and (c) every variable-heuristic answer checked (valid open decision domain)."""
import time

from mc import budget, propmc, solvecheck as SC, solvemc as S, universe as U
from mc.runner import Acc, finish

PROP = "C04"


class PassBound(budget.BudgetExceeded):
    pass


class Obs(S.Observer):
    def __init__(self, spec):
        self.P = max(1, len(spec["cons"]))
        self.execs = 0
        self.bound = 1 << 60
        self.max_ratio = 0.0
        self.passes = 0
        self.total_execs = 0

    def on_pass_start(self, a):
        stack, top = a[10], int(a[13][0])
        D = int((stack[top, :, 1].astype(int) - stack[top, :, 0].astype(int) + 1).clip(min=0).sum())
        self.bound = (self.P + 1) * (D + 1)
        self.execs = 0
        self.passes += 1

    def on_filter(self, prop_idx, alg, before, after, status):
        self.execs += 1
        self.total_execs += 1
        if self.execs > self.bound:
            raise PassBound(f"pass executed {self.execs} propagators > (P+1)*(D+1) = {self.bound}")

    def on_pass_end(self, a, status):
        if self.bound:
            self.max_ratio = max(self.max_ratio, self.execs / self.bound)

    def on_var_choice(self, dom_idx, a):
        decision, stack, top = a[1], a[2], int(a[3][0])
        ok = dom_idx in [int(d) for d in decision] and stack[top, dom_idx, 0] < stack[top, dom_idx, 1] if dom_idx >= 0 else False
        if not ok:
            raise S.HeuristicAnswerError(f"variable heuristic answered {dom_idx} in an unbound state "
                                         f"(domains {stack[top].tolist()})")


def layout(spec):
    return spec["tag"].split(":")[-1] if SC.family_of(spec) == "F1" else spec["tag"].replace(":", "/")


def check_spec(acc, spec, tier):
    fam = SC.family_of(spec)
    nv = len(spec["vars"])
    for cfg in S.configs_for(spec, tier, full=fam in ("F3", "F4", "F7")):
        modes = [("enumerate", None)]
        if fam != "F1" or tier == "thorough":
            modes += [("min", nv - 1), ("max", 0)]
        for mode, var in modes:
            if mode != "enumerate" and U.n_assignments(spec) > 5000:
                continue
            obs = Obs(spec)
            with S.interpose(obs, want=("filter", "pass", "var")):
                o = S.run(spec, cfg, mode, var)
            acc.c["runs"] += 1
            acc.c["passes"] += obs.passes
            acc.c["propagator_executions"] += obs.total_execs
            acc.mx("max_jumps_in_a_run", o.jumps)
            acc.mx("max_pass_executions_permille_of_bound", int(1000 * obs.max_ratio))
            if obs.passes > 1:
                acc.c["nt_runs_with_search"] += 1
            if o.abort in ("budget", "heuristic"):
                kind = "pass-bound" if "(D+1)" in o.abort_detail else ("jump-budget" if o.abort == "budget" else "heuristic-answer")
                acc.violation(f"engine:{SC.con_types(spec)}:{layout(spec)}:{kind}",
                              SC.witness(spec, cfg, mode=mode, var=var, error=o.abort_detail),
                              "a solver call exceeded its deterministic step bound or a variable heuristic gave no valid open domain")
            elif o.abort:
                acc.c["aborted_" + o.abort.split(":")[0]] += 1
            if not acc.samples and obs.passes > 3:
                acc.sample(SC.witness(spec, cfg, mode=mode, passes=obs.passes, executions=obs.total_execs, jumps=o.jumps), cap=1)


def unit(u):
    tier, specs = u
    acc = Acc()
    for spec in specs:
        acc.c["problems"] += 1
        check_spec(acc, spec, tier)
    return acc


def run(tier, seed):
    t0 = time.time()
    acc = propmc.run(PROP, tier, seed)
    eng, nspecs = SC.run_units(unit, tier, seed)
    acc.merge(eng)
    calls = acc.c["calls"]
    cov = {
        "states": calls + acc.c["runs"],
        "transitions": calls + acc.c["propagator_executions"],
        "traces_validated_against_impl": calls + acc.c["runs"],
        "evaluations": calls + acc.c["runs"],
        "distinct_nontrivial": acc.c["nt_any"] + acc.c["nt_runs_with_search"],
        "rule": "(a) every (type, arity, params, box) of the contract table: one real filtering call under a jump budget of "
                f"{propmc.JUMP_BUDGET} loop iterations; (b) every (problem of U, configuration, mode): one real solver run with "
                "the per-pass bound (P+1)*(D+1) on propagator executions, a whole-run jump budget and every variable-heuristic "
                "answer validated; non-trivial = call that pruned/failed/entailed, or run with more than one propagation pass",
        "single_calls": calls, "solver_runs": acc.c["runs"], "passes": acc.c["passes"], "problems": nspecs,
        "exhaustive": True,
        "bounds": f"tier={tier}: contract table of DESIGN 2.7 and universe U families F1-F4",
    }
    return finish(PROP, tier, seed, "model_checking", acc, cov,
                  ["liveness is decided as bounded liveness: budgets are two orders of magnitude above the largest "
                   "terminating behaviour observed (maxima reported in coverage.maxima)",
                   "cost tables within the contract of DESIGN 2.7 (ties included)"],
                  t0, vacuity={"nt_runs_with_search": 1000, "calls": 100000})


def replay(entry):
    rc = 0
    for w in entry["witnesses"]:
        for _ in range(2):
            if "type" in w:
                acc = propmc.replay_witness(PROP, w)
                bad = bool(acc.viol)
            else:
                obs = Obs(w["spec"])
                with S.interpose(obs, want=("filter", "pass", "var")):
                    o = S.run(w["spec"], tuple(w["cfg"]), w.get("mode", "enumerate"), w.get("var"))
                bad = o.abort in ("budget", "heuristic")
                print("   abort:", o.abort, o.abort_detail)
            print("replay:", w, "->", "VIOLATION" if bad else "no violation")
            rc = rc or (1 if bad else 0)
    return rc
