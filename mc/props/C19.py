"""C19 Exceeding a configured capacity is reported, never silently corrupting (CapacityMC).

Finite grid: stack heights x required depths around the height x value heuristics (two-way and three-way splits) x
{BC, shaving} on a chain model with a known solution set, and problem sizes around the 8/16-bit limits. Every point runs
interpreted (IndexError = out-of-range access), compiled, and compiled with NUMBA_BOUNDSCHECK=1 (sub-processes: a wild write
may crash).  Accepted outcomes: a deliberate error / refusal, or exactly the reference result with no out-of-range access."""
import json
import subprocess
import sys
import time

from mc import subproc
from mc.runner import Acc, HarnessError, chunks, finish

PROP = "C19"


def grid(tier):
    th = tier == "thorough"
    pts = []
    heights = [1, 2, 3, 4, 5, 8, 16] + ([32, 128, 255, 256] if th else [255, 256])
    for h in heights:
        for n in sorted({max(1, h + d) for d in (-3, -2, -1, 0, 1, 2)}):
            for heur in ("min", "max", "split_low", "mid", "min_cost3"):
                if h >= 128 and heur not in ("min", "split_low"):
                    continue
                if heur in ("mid", "min_cost3") and n > 9:
                    continue
                for cons in ("bc", "shaving"):
                    if cons == "shaving" and n > 20:
                        continue
                    pts.append(["chain", n, h, heur, cons])
        # three-way heuristics need two levels per decision: depth around h/2
        for n in sorted({max(1, h // 2 + d) for d in (-1, 0, 1)}):
            if n <= 9:
                for heur in ("mid", "min_cost3"):
                    pts.append(["chain", n, h, heur, "bc"])
    for h in (0, 257, 300, 512, 1000):  # heights the 8-bit stack pointer cannot address (or no level at all)
        for n in ((2, 256, 300) if th else (2, 256)):
            pts.append(["chain", n, h, "min", "bc"])
    for n in (255, 256, 257):
        pts.append(["sizes", n, 0, "propagators", "bc"])
    for n in (65535, 65536, 65537):
        pts.append(["sizes", n, 0, "variables", "bc"])
        pts.append(["sizes", n, 0, "slots", "bc"])
        pts.append(["sizes", n, 0, "parameters", "bc"])
    for n in (65535, 65536, 65537, 65540):
        for dim in ("slots1", "parameters1", "domains-explicit-decision", "views"):
            pts.append(["sizes", n, 0, dim, "bc"])
    from mc.capworker import VALUE_CASES
    for i, name in enumerate(VALUE_CASES):  # value ranges around the 32-bit storage of domains, offsets and parameters
        for domh in ("min", "max", "split_low", "mid"):
            pts.append(["values", i, 0, name, domh])
    seen, out = set(), []
    for p in pts:
        if tuple(p) not in seen:
            seen.add(tuple(p))
            out.append(p)
    return out


def run_batches(pts, mode, nproc=16):
    """mode: interpreted | compiled | boundscheck. Batches run in sub-processes (a wild write may crash, a wrapped counter
    may loop for ever); when a batch times out, crashes or prints a bounds failure, its points are re-run one by one."""
    from concurrent.futures import ThreadPoolExecutor

    compiled = mode != "interpreted"
    extra = {"NUMBA_BOUNDSCHECK": "1"} if mode == "boundscheck" else None
    tag = "-boundscheck" if mode == "boundscheck" else ""
    envd = subproc.child_env(compiled, extra, tag)

    def launch(batch, budget):
        p = subprocess.Popen([sys.executable, "-B", "-m", "mc.capworker", json.dumps(batch)], env=envd,
                             stdout=subprocess.PIPE, stderr=subprocess.PIPE, text=True, cwd="/verif")
        timed_out = False
        try:
            out, err = p.communicate(timeout=budget)
        except subprocess.TimeoutExpired:
            p.kill()
            out, err = p.communicate()
            timed_out = True
        got = {}
        for line in out.splitlines():
            if line.startswith("POINT "):
                r = json.loads(line[6:])
                got[tuple(r["point"])] = r
        return got, err, timed_out, p.returncode

    def point_budget(pt):
        # generous: a loaded machine must not turn a slow point into a "hang" (normal run: < 1 s light, < 20 s heavy)
        return 400 if pt[1] > 100 else 90

    def task(batch):
        res = {}
        got, err, timed_out, rc = launch(batch, 60 + sum(point_budget(pt) // 3 for pt in batch))
        clean = not timed_out and rc == 0 and len(got) == len(batch) and "Exception ignored" not in err and "IndexError" not in err
        if clean:
            return got
        for pt in batch:  # one by one
            g, e, to, rc1 = launch([pt], point_budget(pt))
            if tuple(pt) in g:
                r = g[tuple(pt)]
                if r["outcome"] == "correct" and ("Exception ignored" in e or "IndexError" in e):
                    r = dict(r, outcome="stderr:bounds-failure", detail=e[-200:])
            elif to:
                r = {"point": pt, "outcome": "hang:no-result-within-the-time-budget", "detail": ""}
            else:
                r = {"point": pt, "outcome": f"crash:exit{rc1}", "detail": e[-200:]}
            res[tuple(pt)] = r
        return res

    if mode == "interpreted":
        # 65535 one-slot propagators take minutes under interpretation; that in-capacity point is covered by the two compiled modes
        pts = [p for p in pts if not (p[0] == "sizes" and p[3] in ("slots1", "parameters1") and p[1] <= 65535)]
    heavy = [p for p in pts if p[1] > 100]
    light = [p for p in pts if p[1] <= 100]
    batches = [[p] for p in heavy] + chunks(light, 8)
    results = {}
    with ThreadPoolExecutor(nproc) as ex:
        for r in ex.map(task, batches):
            results.update(r)
    return results


def judge(acc, pt, mode, r):
    kind, n, h, heur, cons = pt
    outcome = r["outcome"]
    acc.c["points_" + mode] += 1
    acc.add("outcomes", outcome.split(":")[0])
    need = n if heur not in ("mid", "min_cost3") else 2 * n
    if kind == "chain" and need + 1 > h:
        acc.c["nt_points_beyond_capacity"] += 1
    if kind == "values":
        acc.c["nt_value_range_points"] += 1
    ok = outcome == "correct" or (outcome.startswith("raised:") and outcome != "raised:IndexError")
    if not ok:
        cls = outcome.split(":")[0]
        where = f"height{'<=256' if h <= 256 else '>256'}" if kind == "chain" else heur
        acc.violation(f"{kind}:{where}:{cls}:{'compiled' if mode != 'interpreted' else 'interpreted'}",
                      {"point": pt, "mode": mode, "outcome": outcome, "detail": r.get("detail", ""), "meaning": "[kind, n, stack height, heuristic, consistency]"},
                      "a capacity is exceeded without a proper error: wrong result, crash, or an access outside the arrays")
    if outcome.startswith("raised:"):
        acc.c["nt_refusals"] += 1


def run(tier, seed):
    t0 = time.time()
    acc = Acc()
    pts = grid(tier)
    rc, out, err = subproc.run_module("mc.modeworker", ["warm"], compiled=True, timeout=1800)
    for mode in ("interpreted", "compiled", "boundscheck"):
        res = run_batches(pts, mode)
        for pt in pts:
            if tuple(pt) in res:  # (two heavy in-capacity points are not run under interpretation, see run_batches)
                judge(acc, pt, mode, res[tuple(pt)])
        acc.sample({"mode": mode, "point": pts[len(pts) // 3], "result": res[tuple(pts[len(pts) // 3])]}, cap=3)
    n = acc.c["points_interpreted"] + acc.c["points_compiled"] + acc.c["points_boundscheck"]
    cov = {
        "evaluations": n,
        "distinct_nontrivial": acc.c["nt_points_beyond_capacity"],
        "rule": "grid point = (chain length n, stack height, value heuristic, consistency algorithm) or a size around a 8/16-bit limit; "
                "each point runs interpreted, compiled and compiled with NUMBA_BOUNDSCHECK=1 in sub-processes; accepted = deliberate "
                "error / refusal, or exactly the reference solution set with no out-of-range access (IndexError, bounds-check "
                "failure, crash and wrong results are violations); non-trivial = point whose search needs more levels than the height",
        "states": n, "transitions": n, "traces_validated_against_impl": n,
        "grid_points": len(pts), "refusals_observed": acc.c["nt_refusals"], "exhaustive": True,
        "bounds": f"tier={tier}: heights {{1,2,3,4,5,8,16,{'32,128,' if tier == 'thorough' else ''}255,256}} x depths h-3..h+2, heights "
                  "{0,257,300,512,1000}; 255/256/257 propagators; 65535/65536/65537 variables, propagator-variable slots, parameters; 65535..65540 slots / parameters made of arity-1 / one-parameter propagators, shared domains with explicit decision domains, views; 15 declarations with domain bounds / view sums / offsets / parameters just inside and beyond int32 x 4 value heuristics",
    }
    return finish(PROP, tier, seed, "exploration", acc, cov,
                  ["a finite grid is enumerated completely; nothing is claimed beyond it",
                   "the chain model x_i <= x_{i+1} has a solution set known in closed form"],
                  t0, vacuity={"nt_points_beyond_capacity": 50, "nt_refusals": 20, "nt_value_range_points": 100})


def replay(entry):
    rc = 0
    for w in entry["witnesses"]:
        res = run_batches([w["point"]], w["mode"])
        r = res[tuple(w["point"])]
        print("replay:", w["point"], w["mode"], "->", r["outcome"], r.get("detail", ""))
        ok = r["outcome"] == "correct" or (r["outcome"].startswith("raised:") and r["outcome"] != "raised:IndexError")
        rc = rc or (0 if ok else 1)
    return rc
