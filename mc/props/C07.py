"""C07 A constraint is declared entailed only when it can no longer be violated.
(a) PropMC: every call answering 'entailed' - every tuple of the returned box satisfies the relation.
(b) EngineMC: every reachable search state (all variable orders, 4 value heuristics, both consistency algorithms):
    a constraint whose flag is cleared at the current level is satisfied by every tuple of the current box; after each
    backtrack the flag row equals the one saved at the push (reference frame stack); solutions = brute force."""
import time
from collections import Counter

from mc import contracts as K, enginemc as E, propmc, solvecheck as SC, universe as U
from mc.runner import Acc, finish, pmap, chunks

PROP = "C07"
ENTAILING = {"affine_geq", "affine_leq", "count_eq", "element_iv", "element_lic", "element_liv", "exactly_eq", "exactly_true",
             "lexicographic_leq", "max_leq", "min_geq", "relation"}
HEUR = ("min", "max", "split_low", "mid")


class Mon(E.Monitor):
    def after_propagate(self, eng, acc, before, status):
        if status == 0:
            return
        flags = eng.flags()
        for k, f in enumerate(flags):
            if not f:
                acc.c["flag_cleared_checks"] += 1
                ok, x = eng.constraint_all_true(k)
                if not ok:
                    typ = eng.cons[k][0]
                    acc.violation(f"engine:{typ}:disabled-but-violable",
                                  {"spec": SC.short(eng.spec), "domains": eng.domains(), "constraint": k, "violating_tuple": list(x)},
                                  "a constraint is disabled at the current level although a tuple of the current box violates it")

    def after_branch(self, eng, acc, before, d, h, events):
        old_top = before[0]
        flags_before = [bool(x) for x in before[2][old_top]]
        new_top = int(eng.top[0])
        for level in range(old_top, new_top):
            eng.ref.append((level, flags_before))
        # the branch taken starts with the same flag row
        if eng.flags() != flags_before:
            acc.violation("engine:branch-changes-flag-row", {"spec": SC.short(eng.spec), "d": d, "h": h})

    def after_backtrack(self, eng, acc, before, ok):
        if not ok:
            if eng.ref:
                acc.violation("engine:backtrack-fails-with-pending-alternatives", {"spec": SC.short(eng.spec)})
            return
        if not eng.ref:
            acc.violation("engine:backtrack-succeeds-without-alternative", {"spec": SC.short(eng.spec)})
            return
        level, flags = eng.ref.pop()
        acc.c["backtracks_checked"] += 1
        if int(eng.top[0]) != level or eng.flags() != flags:
            acc.violation("engine:backtrack-flag-row-not-restored",
                          {"spec": SC.short(eng.spec), "level": level, "expected_flags": flags, "flags": eng.flags(), "top": int(eng.top[0])},
                          "after backtracking the set of disabled constraints is not the one saved for the alternative")
        if flags != [True] * len(flags):
            acc.c["nt_backtracks_reenabling"] += 1


LIMIT = {"quick": 36, "thorough": 300}


def eligible(spec, tier="thorough"):
    if len(spec["doms"]) > (5 if tier == "quick" else 6):
        return False  # all variable orders: the state space is factorial in the number of decision domains
    return any(c[0] in ENTAILING for c in spec["cons"]) and U.n_assignments(spec) <= LIMIT[tier]


def check_spec(acc, spec, tier):
    ref = tuple(sorted(U.brute(spec)))
    for cons, h in [(c, h) for c in ("bc", "shaving") for h in HEUR]:
        eng = E.Engine(spec, cons)
        root, ctr = E.explore(eng, acc, Mon(), heuristics=(h,), max_states=100000)
        acc.c["states"] += ctr["states"]
        acc.c["transitions"] += ctr["transitions"]
        acc.c["explorations"] += 1
        acc.mx("max_stack_level", ctr["maxdepth"])
        if ctr["capped"]:
            acc.caps.append(f"state cap hit on {spec['tag']}")
            continue
        if root != ref:
            acc.violation(f"engine:{SC.con_types(spec)}:solutions-differ-from-brute-force",
                          {"spec": SC.short(spec), "cons": cons, "heuristic": h, "yielded": len(root), "expected": len(ref)},
                          "disabling / re-enabling constraints admitted or lost a solution")
        if not acc.samples and ctr["states"] > 10:
            acc.sample({"spec": SC.short(spec), "cons": cons, "states": ctr["states"], "transitions": ctr["transitions"],
                        "solutions": len(root)}, cap=1)


class PassObs:
    """SolveMC observer: after every propagation pass of a real solver run (enumeration, minimise, maximise - restarts
    included) every constraint disabled at the current level must be satisfied by every tuple of its current box."""

    def __init__(self, spec, acc):
        self.spec, self.acc = spec, acc

    def on_pass_start(self, a):
        pass

    def on_filter(self, *a):
        pass

    def on_pass_end(self, a, status):
        import itertools

        import numpy as np

        if status == 0:
            return
        algorithms, var_bounds, param_bounds = a[1], a[2], a[3]
        pidx, poff, pparams = a[6], a[7], a[8]
        stack, ne, top = a[10], a[11], int(a[13][0])
        for k in range(len(algorithms)):
            if ne[top, k]:
                continue
            self.acc.c["flag_cleared_checks_in_solver_runs"] += 1
            vs, ve = int(var_bounds[k, 0]), int(var_bounds[k, 1])
            ps, pe = int(param_bounds[k, 0]), int(param_bounds[k, 1])
            doms = stack[top, pidx[vs:ve]].astype(int) + poff[vs:ve].astype(int)
            typ = K.NAME_OF_ALG[int(algorithms[k])]
            params = tuple(int(v) for v in pparams[ps:pe])
            pred = K.PRED[typ]
            for x in itertools.product(*[range(int(lo), int(hi) + 1) for lo, hi in doms]):
                if not pred(x, params):
                    self.acc.violation(f"solver-run:{typ}:disabled-but-violable",
                                       {"spec": SC.short(self.spec), "constraint_type": typ, "box": doms.tolist(), "violating_tuple": list(x)},
                                       "during a solver run a constraint is disabled although a tuple of its current box violates it")
                    break


def check_spec_runs(acc, spec, tier):
    from mc import solvemc as S

    nv = len(spec["vars"])
    cfgs = S.configs_for(spec, tier)
    for cfg in cfgs[:3] + cfgs[4:5]:
        for mode, var in (("enumerate", None), ("min", nv - 1), ("max", 0), ("min", 0), ("max", nv - 1)):
            obs = PassObs(spec, acc)
            with S.interpose(obs, want=("pass",)):
                o = S.run(spec, cfg, mode, var)
            acc.c["solver_runs"] += 1
            acc.c["transitions"] += o.stats.get("PROPAGATOR_FILTER_NB", 0)


def unit(u):
    tier, specs = u
    acc = Acc()
    for spec in specs:
        acc.c["problems"] += 1
        check_spec(acc, spec, tier)
    return acc


def unit_runs(u):
    tier, specs = u
    acc = Acc()
    for spec in specs:
        check_spec_runs(acc, spec, tier)
    return acc


def run(tier, seed):
    t0 = time.time()
    acc = propmc.run(PROP, tier, seed, types=sorted(ENTAILING))
    fams = U.ALL
    eng, nspecs = SC.run_units(unit, tier, seed, fams, chunk=20, filt=lambda s: eligible(s, tier))
    acc.merge(eng)
    runs, _ = SC.run_units(unit_runs, tier, seed, fams, chunk=40,
                           filt=lambda s: any(c[0] in ENTAILING for c in s["cons"]) and U.n_assignments(s) <= 1000)
    acc.merge(runs)
    cov = {
        "states": acc.c["calls"] + acc.c["states"],
        "transitions": acc.c["calls"] + acc.c["transitions"],
        "traces_validated_against_impl": acc.c["calls"] + acc.c["explorations"],
        "evaluations": acc.c["nt_entailed_answers"] + acc.c["flag_cleared_checks"] + acc.c["backtracks_checked"],
        "distinct_nontrivial": acc.c["nt_entailed_answers"] + acc.c["nt_backtracks_reenabling"],
        "rule": "(a) every (type, arity, params, box) of the 12 types that can answer 'entailed': one real call; every 'entailed' "
                "answer is checked against the truth table of the returned box. (b) explicit-state search over the real engine "
                "(all variable orders, for each of 4 value heuristics and {BC, shaving}) on every problem of U containing such a constraint: "
                "in every state each disabled constraint is checked by brute force on the current box, each backtrack against "
                "the reference frame stack; (c) the same invariant monitored after every propagation pass of real solver runs "
                "(enumerate, minimise, maximise: optimisation restarts included); non-trivial = 'entailed' answer / backtrack that "
                "re-enables a constraint",
        "solver_runs_monitored": acc.c["solver_runs"], "flag_checks_in_solver_runs": acc.c["flag_cleared_checks_in_solver_runs"],
        "single_calls": acc.c["calls"], "engine_states": acc.c["states"], "engine_transitions": acc.c["transitions"],
        "problems": nspecs, "exhaustive": True,
        "bounds": f"tier={tier}: contract table (12 types); problems of U with <= {LIMIT[tier]} assignments; one exploration per value heuristic",
    }
    return finish(PROP, tier, seed, "model_checking", acc, cov,
                  ["relation predicates of mc/contracts.py", "state merging by the canonical form of DESIGN 2.4"],
                  t0, vacuity={"nt_entailed_answers": 10000, "nt_backtracks_reenabling": 100, "entailing_types": 8})


def replay(entry):
    rc = 0
    for w in entry["witnesses"]:
        for _ in range(2):
            acc = Acc()
            if "type" in w:
                acc = propmc.replay_witness(PROP, w)
            else:
                check_spec(acc, w["spec"], "quick")
            print("replay:", w, "->", list(acc.viol) or "no violation")
            rc = rc or (1 if acc.viol else 0)
    return rc
