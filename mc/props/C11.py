"""C11 The multiprocessing solver equals the sequential solver for every interleaving (SchedMC).

Every merge of the real workers' message streams (and, up to a deviation bound, every placement of spurious timeouts /
late termination observations) is explored against the real MultiprocessingSolver.solve/minimize/maximize, for every
partition (Problem.split for k=1..3, every hand-made cut into 2-3 pieces), both pickling extremes of the statistics."""
import time
from collections import Counter

import numpy as np

from mc import mpcases, schedmc as M, solvecheck as SC, solvemc as S, universe as U
from mc.runner import Acc, finish, pmap, chunks

PROP = "C11"
STAT_KEYS = None


def expected_stats(world):
    finals = [st[-1][4] for st in world.streams if st]  # the workers' true final statistics, not what their marker carries
    from nucs.constants import STATS_IDX_SOLVER_CHOICE_DEPTH
    from nucs.solvers.backtrack_solver import BacktrackSolver

    tot = np.sum(finals, axis=0)
    tot[STATS_IDX_SOLVER_CHOICE_DEPTH] = max(int(f[STATS_IDX_SOLVER_CHOICE_DEPTH]) for f in finals)
    return [int(v) for v in tot]


def stats_vector(d):
    from nucs.constants import (STATS_LBL_ALG_BC_NB, STATS_LBL_ALG_BC_WITH_SHAVING_NB, STATS_LBL_ALG_SHAVING_NB,
                                STATS_LBL_ALG_SHAVING_CHANGE_NB, STATS_LBL_ALG_SHAVING_NO_CHANGE_NB,
                                STATS_LBL_PROPAGATOR_ENTAILMENT_NB, STATS_LBL_PROPAGATOR_FILTER_NB,
                                STATS_LBL_PROPAGATOR_FILTER_NO_CHANGE_NB, STATS_LBL_PROPAGATOR_INCONSISTENCY_NB,
                                STATS_LBL_SOLVER_BACKTRACK_NB, STATS_LBL_SOLVER_CHOICE_NB, STATS_LBL_SOLVER_CHOICE_DEPTH,
                                STATS_LBL_SOLVER_SOLUTION_NB)
    order = [STATS_LBL_ALG_BC_NB, STATS_LBL_ALG_BC_WITH_SHAVING_NB, STATS_LBL_ALG_SHAVING_NB, STATS_LBL_ALG_SHAVING_CHANGE_NB,
             STATS_LBL_ALG_SHAVING_NO_CHANGE_NB, STATS_LBL_PROPAGATOR_ENTAILMENT_NB, STATS_LBL_PROPAGATOR_FILTER_NB,
             STATS_LBL_PROPAGATOR_FILTER_NO_CHANGE_NB, STATS_LBL_PROPAGATOR_INCONSISTENCY_NB, STATS_LBL_SOLVER_BACKTRACK_NB,
             STATS_LBL_SOLVER_CHOICE_NB, STATS_LBL_SOLVER_CHOICE_DEPTH, STATS_LBL_SOLVER_SOLUTION_NB]
    return [int(d[k]) for k in order]


def check_case(acc, spec, pname, subs, mode, var, tier, cfg=("bc", "first", "min", None), max_execs=30000):
    sols = U.brute(spec)
    solvers = mpcases.make_solvers(subs, cfg)
    cache = {}
    bound = 1 if tier == "quick" else 2
    base = {"spec": SC.short(spec), "partition": pname, "parts": [s["doms"] for s in subs], "mode": mode, "var": var}
    n_exec = 0
    outcomes = set()
    for pickling in ("eager", "late", "eager+reused"):
        def run_fn(prefix, _p=pickling):
            # "+reused": the same MultiprocessingSolver object has already completed one run
            return M.run_parent(solvers, mode, var, cache, [], prefix, _p.split("+")[0], reuse=_p.endswith("reused"))

        lens = None
        for res in M.explore(run_fn, bound, max_execs):
            n_exec += 1
            acc.c["schedules"] += 1
            acc.c["deliveries"] += sum(1 for e in res.events if e.startswith("get"))
            w = dict(base, pickling=pickling, schedule=res.events, choices=[t[2] for t in res.trace])
            if len({e.split(":")[0] for e in res.events if e.startswith("get -> w")}) > 1:
                acc.c["nt_schedules_with_2+_producers"] += 1
            if getattr(res, "capped", False):
                acc.caps.append(f"schedule cap hit on {spec['tag']} {pname}")
            key0 = f"{mode if mode == 'solve' else 'optimise'}"
            if res.hang:
                acc.violation(f"{key0}:hang", dict(w, hang=res.hang), "the parent blocks although every worker has finished")
                continue
            if res.error:
                acc.violation(f"{key0}:raises", dict(w, error=res.error), "the parent raised without any fault")
                continue
            if res.undelivered:
                acc.violation(f"{key0}:returns-before-all-workers-finished", dict(w, undelivered=res.undelivered),
                              "the call returned while messages of a worker were still undelivered")
            if mode == "solve":
                if Counter(res.yielded) != Counter(sols):
                    acc.violation(f"{key0}:solutions-differ", dict(w, yielded=sorted(res.yielded), expected=len(sols)),
                                  "the multiset of yielded solutions differs from the sequential solver's")
                outcomes.add(tuple(res.yielded))
            else:
                best = None if not sols else (min if mode == "min" else max)(x[var] for x in sols)
                got = None if res.value is None else res.value[var]
                if got != best or (res.value is not None and SC.sol_ok(spec, res.value)):
                    acc.violation(f"{key0}:optimum-differs", dict(w, result=res.value, optimum=best),
                                  "the optimum returned differs from the sequential optimum for this arrival order")
                outcomes.add(res.value)
            exp = expected_stats(res.world)
            if isinstance(res.stats, str) or stats_vector(res.stats) != exp:
                acc.violation(f"{key0}:statistics-differ:{pickling}", dict(w, reported=res.stats if isinstance(res.stats, str) else stats_vector(res.stats), expected=exp),
                              "aggregated statistics are not the sums (max for depth) of the workers' final statistics")
            if not acc.samples and len(res.events) >= 5:
                acc.sample(dict(w, yielded=res.yielded, value=res.value), cap=1)
    acc.c["cases"] += 1
    acc.mx("max_schedules_in_a_case", n_exec)
    acc.add("distinct_outcomes", len(outcomes))
    if len(outcomes) > 1:
        acc.c["nt_cases_with_order_dependent_yield_order"] += 1
    # the sequential solver on the whole problem agrees with the brute force (ties the oracle to the real sequential solver)
    o = S.run(spec, cfg)
    if not o.abort and Counter(o.solutions) != Counter(sols):
        acc.c["sequential_differs_from_brute(reported by C02)"] += 1


def conformance_case(acc, spec, pname, subs, mode, var, cfg=("bc", "first", "min", None)):
    """Binds the model to the library: the same call with real processes (fork, real Queue).  The messages the real parent
    receives must be, per worker, exactly the stream SchedMC computed for that worker; the observed arrival order, replayed
    through the controlled scheduler, must give the same yielded sequence / optimum / statistics as the real run."""
    solvers = mpcases.make_solvers(subs, cfg)
    real = M.run_real(solvers, mode, var)
    base = {"spec": SC.short(spec), "partition": pname, "parts": [s["doms"] for s in subs], "mode": mode, "var": var}
    acc.c["real_process_runs"] += 1
    if real.error:
        acc.violation("real-process:raises", dict(base, error=real.error), "with real processes and no fault the call raised")
        return
    order = [m[0] for m in real.log]
    cache = {}
    model = M.run_parent(solvers, mode, var, cache, [], [], "late", sched=M.OrderSched(order))
    acc.c["real_process_messages"] += len(order)
    if len(set(order)) > 1:
        acc.c["nt_real_runs_with_2+_producers"] += 1
    # per worker, the real messages are the model's stream (proc_idx, solution; final statistics on the marker)
    for w, stream in enumerate(model.world.streams):
        got = [m for m in real.log if m[0] == w]
        exp = [(int(p), None if sol is None else tuple(int(v) for v in sol)) for p, sol, _st, _fin, _true in stream]
        if [(m[0], m[1]) for m in got] != exp:
            acc.violation("real-process:stream-differs-from-model", dict(base, worker=w, real=[(m[0], m[1]) for m in got], model=exp),
                          "the messages a real worker sent are not the stream SchedMC computed for it")
            return
        if got and stream and [int(v) for v in got[-1][2]] != [int(v) for v in stream[-1][3]]:
            acc.violation("real-process:final-statistics-differ-from-model", dict(base, worker=w))
            return
    same = (model.yielded == real.yielded and model.value == real.value and not model.error and not model.hang
            and (isinstance(model.stats, dict) and model.stats == real.stats))
    if not same:
        acc.violation("real-process:model-replay-differs", dict(base, order=order, real=[real.yielded, real.value], model=[model.yielded, model.value, model.error, model.hang]),
                      "replaying the real arrival order through the controlled scheduler does not reproduce the real run")
        return
    acc.c["real_traces_reproduced_by_model"] += 1


def unit(u):
    tier, cases = u
    acc = Acc()
    for spec, pname, subs, mode, var in cases:
        check_case(acc, spec, pname, subs, mode, var, tier)
    return acc


def unit_real(u):
    tier, cases = u
    acc = Acc()
    for spec, pname, subs, mode, var in cases:
        conformance_case(acc, spec, pname, subs, mode, var)
    return acc


def all_cases(tier):
    cases = []
    for spec in mpcases.mp_specs(tier):
        nsol = len(U.brute(spec))
        if nsol > (6 if tier == "quick" else 9):
            continue
        nv = len(spec["vars"])
        for pname, subs in mpcases.partitions(spec, tier):
            cases.append((spec, pname, subs, "solve", None))
            for var in sorted({0, nv - 1}):
                cases.append((spec, pname, subs, "min", var))
                cases.append((spec, pname, subs, "max", var))
    return cases


def run(tier, seed):
    t0 = time.time()
    cases = all_cases(tier)
    acc = pmap(unit, [(tier, c) for c in chunks(cases, 6)], seed)
    # conformance with the real library on a slice of the same cases (every 40th in quick, every 8th in thorough)
    real_cases = [c for i, c in enumerate(cases) if i % (40 if tier == "quick" else 8) == 0]
    acc.merge(unit_real((tier, real_cases)))  # in this process: pool workers are daemonic and may not start processes
    cov = {
        "states": acc.c["schedules"],
        "transitions": acc.c["deliveries"],
        "traces_validated_against_impl": acc.c["schedules"] + acc.c["real_traces_reproduced_by_model"],
        "real_process_runs": acc.c["real_process_runs"], "real_traces_reproduced_by_model": acc.c["real_traces_reproduced_by_model"],
        "evaluations": acc.c["schedules"],
        "distinct_nontrivial": acc.c["nt_schedules_with_2+_producers"],
        "rule": "state = one complete schedule (merge of the real workers' message streams + placements of spurious timeouts / "
                "termination observations up to the deviation bound) replayed against the real parent code; transitions = message "
                "deliveries; every schedule is an execution of the real MultiprocessingSolver with only Process/Queue replaced; "
                "non-trivial = schedule in which at least two producers' messages are delivered",
        "cases": acc.c["cases"], "exhaustive": True,
        "bounds": f"tier={tier}: 1..3 workers, Problem.split k=1..3 on first/last domain and every cut of the first domain into 2-3 "
                  f"pieces{'' if tier == 'thorough' else ' (first 4 per size)'}, problems with <= {6 if tier == 'quick' else 9} "
                  f"solutions, deviation bound {1 if tier == 'quick' else 2}, pickling eager/late",
    }
    return finish(PROP, tier, seed, "model_checking", acc, cov,
                  ["workers are deterministic and share nothing but the queue (determinism checked by running each target twice): "
                   "running them to completion and interleaving deliveries reaches the behaviours of concurrent workers",
                   "per-producer FIFO delivery, as with a pipe",
                   "conformance: a slice of the cases is also run with real processes (fork); per worker the real messages equal the "
                   "model's stream, and the real arrival order replayed through the scheduler reproduces the real result and statistics"],
                  t0, vacuity={"nt_schedules_with_2+_producers": 1000, "cases": 100, "real_traces_reproduced_by_model": 20})


def replay(entry):
    rc = 0
    for w in entry["witnesses"]:
        for _ in range(2):
            spec = w["spec"]
            subs = []
            import copy
            for doms in w["parts"]:
                s = copy.deepcopy(spec)
                s["doms"] = doms
                subs.append(s)
            solvers = mpcases.make_solvers(subs)
            res = M.run_parent(solvers, w["mode"], w["var"], {}, [], w["choices"], w["pickling"].split("+")[0], reuse=w["pickling"].endswith("reused"))
            print("replay:", w["partition"], w["mode"], res.events, "-> yielded", res.yielded, "value", res.value, "hang", res.hang, "error", res.error, res.stats)
            acc = Acc()
            check_case(acc, spec, w["partition"], subs, w["mode"], w["var"], "quick")
            rc = rc or (1 if acc.viol else 0)
    return rc
