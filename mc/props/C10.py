"""C10 Shaving is a sound strengthening of bound consistency (EngineMC differential + SolveMC).

In every reachable search state in which a solver invokes its consistency algorithm (explicit-state search, all variable
orders on small problems, first-open-variable order on larger ones, solver running BC and solver running shaving), the
state is cloned: real shaving on one clone, real bound consistency on the other."""
import time
from collections import Counter

import numpy as np

from mc import enginemc as E, solvecheck as SC, solvemc as S, universe as U
from mc.runner import Acc, finish

PROP = "C10"
LIMIT = {"quick": 64, "thorough": 400}


class Mon(E.Monitor):
    def __init__(self, sols):
        self.sols = sols

    def on_node(self, eng, acc):
        node = eng.snapshot()
        try:
            self._on_node(eng, acc, node)
        except Exception as e:  # noqa  (non-terminating / crashing pass: C04 / C16 report it)
            acc.caps.append(f"differential run on {eng.spec.get('tag')} stopped: {type(e).__name__}")
            eng.restore(node)

    def _on_node(self, eng, acc, node):
        t = node[0]
        inbox = eng.box_solutions(self.sols)
        st_bc = eng.propagate(S.CONS["bc"])
        bc_doms, bc_top = eng.domains(), int(eng.top[0])
        eng.restore(node)
        st_sh = eng.propagate(S.CONS["shaving"])
        sh_doms, sh_top = eng.domains(), int(eng.top[0])
        below_same = (np.array_equal(eng.stack[:t], node[1][:t]) and np.array_equal(eng.ne[:t], node[2][:t])
                      and np.array_equal(eng.du[:t], node[3][:t]))
        acc.c["differential_states"] += 1
        w = {"spec": SC.short(eng.spec), "node_domains": [list(x) for x in E._doms_of(node)], "bc": [st_bc, bc_doms], "shaving": [st_sh, sh_doms]}
        types = SC.con_types(eng.spec)
        if sh_top != t:
            acc.violation(f"{types}:stack-height-changed", dict(w, top_before=t, top_after=sh_top),
                          "shaving does not leave the choice-point stack at the height it found it")
        elif not below_same:
            acc.violation(f"{types}:lower-levels-touched", w, "shaving modified a choice point below the current level")
        if st_sh == 0:
            if inbox:
                acc.violation(f"{types}:false-inconsistency", dict(w, solution=list(inbox[0])), "shaving reports inconsistency although the box contains a solution")
        else:
            vb = [(sh_doms[d][0] + off, sh_doms[d][1] + off) for d, off in eng.spec["vars"]]
            lost = [x for x in inbox if not all(lo <= v <= hi for v, (lo, hi) in zip(x, vb))]
            if lost:
                acc.violation(f"{types}:solution-shaved", dict(w, lost=list(lost[0])), "shaving removed a value that takes part in a solution")
            if st_bc == 0:
                acc.violation(f"{types}:weaker-than-bc", w, "bound consistency fails but shaving does not")
            elif any(s[0] < b[0] or s[1] > b[1] for s, b in zip(sh_doms, bc_doms)):
                acc.violation(f"{types}:not-contained-in-bc", w, "the domains returned by shaving are not contained in those of bound consistency")
            elif any(s[0] > s[1] for s in sh_doms):
                acc.violation(f"{types}:empty-domain", w)
            if st_bc != 0 and sh_doms != bc_doms:
                acc.c["nt_shaving_stronger"] += 1
            if st_sh == 2:
                x = tuple(sh_doms[d][0] + off for d, off in eng.spec["vars"])
                if any(s[0] != s[1] for s in sh_doms) or SC.sol_ok(eng.spec, x):
                    acc.violation(f"{types}:solved-but-not-a-solution", w)
        if st_sh == 0 and st_bc != 0:
            acc.c["nt_shaving_refutes"] += 1
        eng.restore(node)


def eligible(spec, tier):
    return len(spec["cons"]) >= 1 and not any(c[0] == "gcc" and 0 in c[2][1 + (len(c[2]) - 1) // 2:] for c in spec["cons"])


def check_spec(acc, spec, tier):
    na = U.n_assignments(spec)
    small = na <= LIMIT[tier] and len(spec["doms"]) <= (5 if tier == "quick" else 6)
    if not small and (na > 20000 or SC.family_of(spec) in ("F1", "F2")):
        return
    sols = U.brute(spec)
    # tight stacks: the consistency algorithm is also invoked with the stack (almost) full (three-way split from height-3)
    if small and na <= 40:
        for stack in (3, 4, 5, 6):
            eng = E.Engine(spec, "shaving", stack=stack)
            root, ctr = E.explore(eng, acc, Mon(sols), heuristics=("mid",), max_states=20000, orders="first")
            acc.c["states"] += ctr["states"]
            acc.c["transitions"] += ctr["transitions"] + 2 * ctr["states"]
            acc.c["explorations"] += 1
            acc.c["nt_tight_stack_refusals"] += ctr.get("refused", 0)
    for cons in ("shaving", "bc"):
        for h in ((("min", "max") if cons == "shaving" else ("mid",)) if tier == "quick" else ("min", "max", "split_low", "mid")):
            eng = E.Engine(spec, cons)
            root, ctr = E.explore(eng, acc, Mon(sols), heuristics=(h,), max_states=50000, orders="all" if small else "first")
            acc.c["states"] += ctr["states"]
            acc.c["transitions"] += ctr["transitions"] + 2 * ctr["states"]
            acc.c["explorations"] += 1
            if ctr["capped"]:
                acc.caps.append(f"state cap hit on {spec['tag']}")
            elif root != tuple(sorted(sols)) and not ctr.get("refused"):
                acc.violation(f"{SC.con_types(spec)}:engine-solutions-differ:{cons}", {"spec": SC.short(spec), "h": h, "got": len(root), "expected": len(sols)})
    # whole-solver differential: same solutions, same optima
    nv = len(spec["vars"])
    for varh, domh in (("first", "min"), ("smallest", "max"), ("greatest", "mid")):
        a = S.run(spec, ("bc", varh, domh, None))
        b = S.run(spec, ("shaving", varh, domh, None))
        acc.c["solver_pairs"] += 1
        if a.abort or b.abort:
            acc.c["aborted"] += 1
            continue
        if Counter(a.solutions) != Counter(b.solutions):
            acc.violation(f"{SC.con_types(spec)}:solver-solutions-differ", SC.witness(spec, ("shaving", varh, domh, None), bc=len(a.solutions), shaving=len(b.solutions)),
                          "a solver using shaving does not enumerate the same solutions as with plain bound consistency")
        if na <= 5000:
            for var, mode in ((nv - 1, "min"), (0, "max")):
                ra, rb = S.run(spec, ("bc", varh, domh, None), mode, var), S.run(spec, ("shaving", varh, domh, None), mode, var)
                if ra.abort or rb.abort:
                    continue
                va = None if ra.result is None else ra.result[var]
                vb_ = None if rb.result is None else rb.result[var]
                if va != vb_:
                    acc.violation(f"{SC.con_types(spec)}:solver-optima-differ", SC.witness(spec, ("shaving", varh, domh, None), mode=mode, var=var, bc=va, shaving=vb_))
    if not acc.samples and acc.c["nt_shaving_stronger"]:
        acc.sample({"spec": SC.short(spec), "states": acc.c["states"], "states_where_shaving_is_stronger": acc.c["nt_shaving_stronger"]}, cap=1)


def unit(u):
    tier, specs = u
    acc = Acc()
    for spec in specs:
        acc.c["problems"] += 1
        check_spec(acc, spec, tier)
    return acc


def run(tier, seed):
    t0 = time.time()
    acc, nspecs = SC.run_units(unit, tier, seed, U.ALL, chunk=20, filt=lambda s: eligible(s, tier))
    cov = {
        "states": acc.c["states"],
        "transitions": acc.c["transitions"],
        "traces_validated_against_impl": acc.c["explorations"] + acc.c["solver_pairs"],
        "evaluations": acc.c["differential_states"],
        "distinct_nontrivial": acc.c["nt_shaving_stronger"] + acc.c["nt_shaving_refutes"],
        "rule": "state = solver arrays in which a consistency algorithm is invoked (explicit-state search over the real engine, "
                "solver running shaving and solver running BC); in each state the real shaving and the real BC are run on clones "
                "and compared (containment, no solution lost, stack height and lower levels untouched, status soundness); plus "
                "whole-solver differential runs; non-trivial = state in which shaving prunes more than BC or refutes the state",
        "problems": nspecs, "exhaustive": True,
        "tight_stack_refusals_observed": acc.c["nt_tight_stack_refusals"],
        "bounds": f"tier={tier}: stack heights 3-6 with the three-way split on problems with <= 40 assignments; all variable orders on problems with <= {LIMIT[tier]} assignments and <= 5-6 domains; first-open "
                  "order on F3/F4 problems up to 20000 assignments",
    }
    return finish(PROP, tier, seed, "model_checking", acc, cov, ["brute-force solutions of mc/universe.py"],
                  t0, vacuity={"nt_shaving_stronger": 100, "nt_shaving_refutes": 100, "differential_states": 10000})


def replay(entry):
    rc = 0
    for w in entry["witnesses"]:
        for _ in range(2):
            acc = Acc()
            check_spec(acc, w["spec"], "quick")
            print("replay:", w["spec"], "->", list(acc.viol) or "no violation")
            rc = rc or (1 if acc.viol else 0)
    return rc
