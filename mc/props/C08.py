"""C08 Propagation stops only at a common fixpoint and only ever shrinks domains.

(A) EngineMC: in every reachable search state in which a pass starts (all variable orders), the propagation queue is
    explored under *every* wake-up order: explicit-state search over (domains, flags, queue) whose transition is one
    execution of the real bound_consistency_algorithm body for a propagator chosen by the scheduler that replaces
    pop_propagator.  Every terminal state is checked: (i) shrinks only / non-empty, (ii) re-execution of every enabled
    constraint neither fails nor (sub-cycle excepted) changes a domain, (iii) all-exact-BC problems: unique result equal to
    the reference greatest fixpoint; the real order is replayed and must be one of the explored paths.
(B) PropMC, trigger sufficiency: for every fixpoint box of a constraint and every narrowing of one variable whose events
    miss the declared trigger mask, the call on the narrowed box does not fail, accepts only satisfying points and (exact-BC
    types) prunes nothing."""
import itertools
import time
import zlib

import numpy as np

from mc import contracts as K, enginemc as E, propmc, solvecheck as SC, universe as U
from mc.runner import Acc, finish, pmap, chunks
from nucs.constants import EVENT_MASK_GROUND, EVENT_MASK_MAX, EVENT_MASK_MIN
from nucs.propagators import propagators as P
from nucs.solvers import bound_consistency_algorithm as BCA

PROP = "C08"
LIMIT = {"quick": 64, "thorough": 300}


class Cut(Exception):
    pass


def sched_key(eng):
    t = int(eng.top[0])
    return (eng.stack[t].tobytes(), eng.ne[t].tobytes(), eng.trig.tobytes())


def step(eng, c, real_bc):
    """One execution of propagator c through the real bound-consistency code. Returns INCONSISTENT (0) or None."""
    calls = [0]
    real_pop = BCA.pop_propagator

    def pop(triggered, prev):
        if calls[0] == 0:
            calls[0] = 1
            triggered[c] = False
            return c
        raise Cut()

    from mc import budget

    BCA.pop_propagator = pop
    budget.start(E.PASS_JUMP_BUDGET)
    try:
        return int(real_bc(*eng.alg_args))
    except Cut:
        return None
    finally:
        budget.stop()
        BCA.pop_propagator = real_pop


def finish_pass(eng, real_bc):
    """Real end-of-pass code (empty queue): returns BOUND / UNBOUND."""
    real_pop = BCA.pop_propagator
    BCA.pop_propagator = lambda triggered, prev: -1
    try:
        return int(real_bc(*eng.alg_args))
    finally:
        BCA.pop_propagator = real_pop


class Ref:
    """Reference hull operators of a problem (truth cubes over the initial variable ranges)."""

    def __init__(self, eng):
        self.eng = eng
        spec = eng.spec
        self.cubes = []
        for typ, vs, params in eng.cons:
            axes = tuple(U.var_range(spec, v) for v in vs)
            self.cubes.append(K.Cube(typ, len(vs), params, axes) if all(a[0] <= a[1] for a in axes) else None)
        self.all_exact = all(c[0] in K.BC_EXACT for c in eng.cons)

    def greatest_fixpoint(self, doms, flags):
        """Chaotic iteration of the position-wise hull operators with intersecting write-back; None = inconsistent."""
        spec = self.eng.spec
        doms = [list(d) for d in doms]
        changed = True
        while changed:
            changed = False
            for k, (typ, vs, params) in enumerate(self.eng.cons):
                if not flags[k]:
                    continue
                box = tuple((doms[spec["vars"][v][0]][0] + spec["vars"][v][1], doms[spec["vars"][v][0]][1] + spec["vars"][v][1]) for v in vs)
                if any(b[0] > b[1] for b in box):
                    return None
                hull = self.cubes[k].hull(box)
                if hull is None:
                    return None
                for v, (lo, hi) in zip(vs, hull):
                    d, off = spec["vars"][v]
                    if lo - off > doms[d][0]:
                        doms[d][0] = lo - off
                        changed = True
                    if hi - off < doms[d][1]:
                        doms[d][1] = hi - off
                        changed = True
                    if doms[d][0] > doms[d][1]:
                        return None
        return [tuple(d) for d in doms]


def reexecute(eng, k):
    """Re-executes constraint k on the current views, as the engine would build them. Returns (status, changed)."""
    typ, vs, params = eng.cons[k]
    box = tuple(eng.var_box()[v] for v in vs)
    status, out, exc = propmc.safe_call(typ, box, params)
    if exc:
        return exc, False
    return status, tuple(out) != tuple(box)


def explore_orders(eng, acc, ref, real_bc, max_sched_states):
    start = eng.snapshot()
    start_doms = eng.domains()
    start_flags = eng.flags()
    seen = set()
    terminals = {}  # outcome -> example order
    ctr = {"s": 0, "t": 0, "capped": False}

    def rec(order):
        key = sched_key(eng)
        if key in seen:
            return
        if ctr["s"] >= max_sched_states:
            ctr["capped"] = True
            return
        seen.add(key)
        ctr["s"] += 1
        cands = [int(i) for i in np.flatnonzero(eng.trig)]
        if not cands:
            status = finish_pass(eng, real_bc)
            terminals.setdefault((status, tuple(eng.domains()), tuple(eng.flags())), list(order))
            return
        here = eng.snapshot()
        for c in cands:
            eng.restore(here)
            r = step(eng, c, real_bc)
            ctr["t"] += 1
            if r is not None:
                terminals.setdefault((0, None, None), list(order) + [c])
            else:
                rec(order + [c])

    rec([])
    acc.c["sched_states"] += ctr["s"]
    acc.c["sched_transitions"] += ctr["t"]
    acc.c["passes_explored"] += 1
    acc.mx("max_sched_states_in_a_pass", ctr["s"])
    if ctr["capped"]:
        acc.caps.append(f"scheduler state cap hit on {eng.spec['tag']}")
    if len(seen) > 2 and len({o for o in terminals}) >= 1 and ctr["t"] > ctr["s"]:
        acc.c["nt_passes_with_several_orders"] += 1
    spec_w = SC.short(eng.spec)
    types = SC.con_types(eng.spec)
    # conformance: the real order is one of the explored paths
    eng.restore(start)
    real_status = int(real_bc(*eng.alg_args))
    real_out = (real_status, tuple(eng.domains()), tuple(eng.flags())) if real_status != 0 else (0, None, None)
    acc.c["real_order_replays"] += 1
    if real_out not in terminals and not ctr["capped"]:
        acc.violation("harness:real-order-not-among-explored-orders", {"spec": spec_w, "start": start_doms, "real": list(map(str, real_out))},
                      "conformance failure of the scheduler model (the real policy must be one of the explored schedules)")
    fails = [o for o in terminals if o[0] == 0]
    oks = [o for o in terminals if o[0] != 0]
    for status, doms, flags in oks:
        w = {"spec": spec_w, "start_domains": start_doms, "order": terminals[(status, doms, flags)], "final_domains": list(doms)}
        # (i)
        if any(b[0] > b[1] for b in doms):
            acc.violation(f"{types}:empty-domain-at-pass-end", w, "a pass reported consistent/solved with an empty domain")
            continue
        if any(b[0] < a[0] or b[1] > a[1] for a, b in zip(start_doms, doms)):
            acc.violation(f"{types}:domain-grew", w, "a domain at the end of the pass is not a subset of its value at pass start")
        # (ii)
        eng.restore(start)
        t = int(eng.top[0])
        eng.stack[t] = np.array(doms, dtype=np.int32)
        for k, f in enumerate(flags):
            if not f:
                continue
            st, changed = reexecute(eng, k)
            acc.c["reexecutions"] += 1
            typ = eng.cons[k][0]
            if st == 0 or isinstance(st, str):
                acc.violation(f"{typ}:reexecution-fails-at-pass-end", dict(w, constraint=k, result=st),
                              "re-executing an enabled constraint on the final domains of a consistent pass fails")
            elif changed and typ != "no_sub_cycle":
                acc.violation(f"{typ}:reexecution-prunes-at-pass-end", dict(w, constraint=k),
                              "the pass ended before the common fixpoint: an enabled constraint can still prune")
        if status == 2 and any(b[0] != b[1] for b in doms):
            acc.violation(f"{types}:solved-with-open-domain", w)
    # (iii)
    if ref.all_exact and not ctr["capped"]:
        gfp = ref.greatest_fixpoint(start_doms, start_flags)
        acc.c["nt_exact_bc_passes"] += 1
        w = {"spec": spec_w, "start_domains": start_doms, "outcomes": [[o[0], None if o[1] is None else list(o[1]), terminals[o]] for o in terminals][:4],
             "reference": gfp}
        if gfp is None:
            if oks:
                acc.violation(f"{types}:exact-bc:inconsistency-not-detected", w,
                              "some wake-up order ends consistent although the reference greatest fixpoint is empty")
        else:
            if fails:
                acc.violation(f"{types}:exact-bc:false-inconsistency", w)
            finals = {o[1] for o in oks}
            if len(finals) > 1:
                acc.violation(f"{types}:exact-bc:result-depends-on-wake-up-order", w,
                              "two wake-up orders end in different domains")
            elif finals and list(next(iter(finals))) != gfp:
                acc.violation(f"{types}:exact-bc:not-the-greatest-fixpoint", w,
                              "the pass result differs from the reference greatest common fixpoint")
    eng.restore(start)


class Mon(E.Monitor):
    def __init__(self, ref, real_bc, cap):
        self.ref, self.real_bc, self.cap = ref, real_bc, cap

    def on_node(self, eng, acc):
        node = eng.snapshot()
        try:
            explore_orders(eng, acc, self.ref, self.real_bc, self.cap)
        except Exception as e:  # noqa  (non-terminating / crashing propagator: C04 / C16 report it)
            acc.caps.append(f"wake-up order exploration of {eng.spec.get('tag')} stopped: {type(e).__name__}")
            eng.restore(node)


def eligible(spec, tier):
    limit = LIMIT[tier] if SC.family_of(spec) in ("F1", "F2") else (10 if tier == "quick" else 20) * LIMIT[tier]
    if len(spec["doms"]) > (5 if tier == "quick" else 6):
        return False  # all variable orders: the state space is factorial in the number of decision domains
    return len(spec["cons"]) >= 1 and U.n_assignments(spec) <= limit and not any(
        c[0] == "gcc" and 0 in c[2][1 + (len(c[2]) - 1) // 2:] for c in spec["cons"])


def root_outcome(spec, real_bc):
    eng = E.Engine(spec, "bc")
    st = int(real_bc(*eng.alg_args))
    return (st, tuple(eng.domains()) if st else None)


def check_spec(acc, spec, tier):
    real_bc = BCA.bound_consistency_algorithm
    heur = ("min", "mid") if tier == "quick" else ("min", "max", "split_low", "mid")
    for h in heur:
        eng = E.Engine(spec, "bc")
        ref = Ref(eng)
        root, ctr = E.explore(eng, acc, Mon(ref, real_bc, 5000 if tier == "quick" else 50000), heuristics=(h,), max_states=50000)
        acc.c["states"] += ctr["states"]
        acc.c["transitions"] += ctr["transitions"]
        acc.c["explorations"] += 1
        if ctr["capped"]:
            acc.caps.append(f"state cap hit on {spec['tag']}")
    # posting permutations: the root pass of an all-exact-BC problem gives the same result whatever the posting order
    k = len(spec["cons"])
    if 2 <= k <= 4 and all(c[0] in K.BC_EXACT for c in spec["cons"]):
        base = root_outcome(spec, real_bc)
        for perm in list(itertools.permutations(range(k)))[1:]:
            s2 = dict(spec)
            s2["cons"] = [spec["cons"][i] for i in perm]
            acc.c["nt_posting_permutations"] += 1
            if root_outcome(s2, real_bc) != base:
                acc.violation(f"{SC.con_types(spec)}:exact-bc:result-depends-on-posting-order",
                              {"spec": SC.short(spec), "perm": list(perm), "base": str(base), "permuted": str(root_outcome(s2, real_bc))})
    if not acc.samples:
        acc.sample({"spec": SC.short(spec), "engine_states": acc.c["states"], "scheduler_states": acc.c["sched_states"]}, cap=1)


class RunObs:
    """SolveMC observer for whole solver runs (enumerate / minimise / maximise, restarts included): at the end of every pass
    that does not fail, every constraint that is enabled - or disabled without being entailed by the current box - is
    re-executed on the final views: it must not fail and (sub-cycle excepted) must not prune."""

    def __init__(self, spec, acc):
        self.spec, self.acc = spec, acc

    def on_pass_start(self, a):
        self.start = a[10][int(a[13][0])].copy()

    def on_filter(self, *a):
        pass

    def on_pass_end(self, a, status):
        if status == 0:
            return
        algorithms, var_bounds, param_bounds = a[1], a[2], a[3]
        pidx, poff, pparams = a[6], a[7], a[8]
        stack, ne, top = a[10], a[11], int(a[13][0])
        cur = stack[top]
        self.acc.c["solver_run_passes_checked"] += 1
        if (cur[:, 0] > cur[:, 1]).any() or (cur[:, 0] < self.start[:, 0]).any() or (cur[:, 1] > self.start[:, 1]).any():
            self.acc.violation("solver-run:domain-grew-or-empty", {"spec": SC.short(self.spec), "start": self.start.tolist(), "end": cur.tolist()},
                               "a pass of a real solver run ended with an empty or a widened domain")
            return
        for k in range(len(algorithms)):
            vs, ve = int(var_bounds[k, 0]), int(var_bounds[k, 1])
            ps, pe = int(param_bounds[k, 0]), int(param_bounds[k, 1])
            doms = stack[top, pidx[vs:ve]].astype(int) + poff[vs:ve].astype(int)
            typ = K.NAME_OF_ALG[int(algorithms[k])]
            params = tuple(int(v) for v in pparams[ps:pe])
            box = tuple((int(lo), int(hi)) for lo, hi in doms)
            if not ne[top, k]:
                pred = K.PRED[typ]
                if all(pred(x, params) for x in itertools.product(*[range(lo, hi + 1) for lo, hi in box])):
                    continue  # really entailed
            st, out, exc = propmc.safe_call(typ, box, params)
            self.acc.c["reexecutions"] += 1
            w = {"spec": SC.short(self.spec), "constraint_type": typ, "box": [list(b) for b in box], "flag_enabled": bool(ne[top, k]), "result": [st, out, exc]}
            if exc or st == 0:
                self.acc.violation(f"solver-run:{typ}:reexecution-fails-at-pass-end", w,
                                   "re-executing a constraint that is not entailed on the final domains of a consistent pass fails")
            elif tuple(out) != box and typ != "no_sub_cycle":
                self.acc.violation(f"solver-run:{typ}:reexecution-prunes-at-pass-end", w,
                                   "a pass of a real solver run ended before the fixpoint of a constraint that is not entailed")


def check_spec_runs(acc, spec, tier):
    from mc import solvemc as S

    nv = len(spec["vars"])
    cfgs = S.configs_for(spec, tier)
    for cfg in cfgs[:2] + cfgs[4:5]:
        for mode, var in (("min", nv - 1), ("max", 0), ("max", nv - 1)):
            obs = RunObs(spec, acc)
            with S.interpose(obs, want=("pass",)):
                S.run(spec, cfg, mode, var)
            acc.c["solver_runs"] += 1


def unit(u):
    tier, specs = u
    acc = Acc()
    for spec in specs:
        acc.c["problems"] += 1
        check_spec(acc, spec, tier)
    return acc


def unit_runs(u):
    tier, specs = u
    acc = Acc()
    for spec in specs:
        check_spec_runs(acc, spec, tier)
    return acc


# ---------------------------------------------------------------------------------------------------------------
# (B) trigger sufficiency
# ---------------------------------------------------------------------------------------------------------------
# every type: a type whose declared masks watch everything costs one call per box; a narrowed mask is then seen at once
RESTRICTED = list(K.TYPES)


def events_of(old, new):
    ev = 0
    if new[0] != old[0]:
        ev |= EVENT_MASK_MIN
    if new[1] != old[1]:
        ev |= EVENT_MASK_MAX
    if ev and new[0] == new[1]:
        ev |= EVENT_MASK_GROUND
    return ev


def trig_unit(u):
    tier, typ, insts = u
    propmc._ensure_watch()
    acc = Acc()
    for n, params, axes in insts:
        cube = K.Cube(typ, n, params, axes)
        mask = [int(m) for m in P.GET_TRIGGERS_FCTS[K.ALG[typ]](n, np.array(params, dtype=np.int32))]
        for box in K.boxes(axes):
            status, out, exc = propmc.safe_call(typ, box, params)
            acc.c["calls"] += 1
            if exc or status != 1 or tuple(out) != tuple(box):
                continue
            acc.c["fixpoint_boxes"] += 1
            for i in range(n):
                lo, hi = box[i]
                for a in range(lo, hi + 1):
                    for b in range(a, hi + 1):
                        if (a, b) == (lo, hi):
                            continue
                        ev = events_of((lo, hi), (a, b))
                        if ev & mask[i]:
                            continue
                        nb = box[:i] + ((a, b),) + box[i + 1:]
                        s2, o2, e2 = propmc.safe_call(typ, nb, params)
                        acc.c["calls"] += 1
                        acc.c["nt_unwatched_narrowings"] += 1
                        acc.add("types_with_unwatched_events", typ)
                        w = propmc.wit(typ, n, params, box, s2, o2, narrowed=[list(x) for x in nb], position=i, events=ev, mask=mask[i])
                        sk = propmc.subkey(typ, n, params, box)
                        if e2 or s2 == 0:
                            acc.violation(f"{typ}:{sk}:unwatched-change-makes-it-fail", w,
                                          "a bound change the constraint does not watch makes a re-execution fail")
                            continue
                        if propmc.is_point(nb):
                            x = tuple(v[0] for v in nb)
                            if (typ not in K.PERM_ONLY or K.is_perm(x)) and not cube.holds(x):
                                acc.violation(f"{typ}:{sk}:unwatched-change-hides-violation", w)
                        if typ in K.BC_EXACT and tuple(o2) != tuple(nb):
                            acc.violation(f"{typ}:{sk}:unwatched-change-enables-pruning", w,
                                          "a bound change the bound-consistent constraint does not watch enables further pruning")
                        if not acc.samples:
                            acc.sample(w, cap=1)
    return acc


def run(tier, seed):
    t0 = time.time()
    units = [(tier, typ, insts) for (_p, _t, typ, insts) in propmc.units_for(PROP, tier, RESTRICTED)]
    acc = pmap(trig_unit, units, seed)
    eng, nspecs = SC.run_units(unit, tier, seed, U.ALL, chunk=20, filt=lambda s: eligible(s, tier))
    acc.merge(eng)
    runs, _ = SC.run_units(unit_runs, tier, seed, U.ALL, chunk=40,
                           filt=lambda s: len(s["cons"]) >= 1 and U.n_assignments(s) <= 300 and eligible(s, "thorough") and
                           (tier == "thorough" or zlib.crc32(U.key(s).encode()) % 3 == 0 or s["tag"][:2] in ("F3", "F4", "F5", "F7")))
    acc.merge(runs)
    cov = {
        "states": acc.c["sched_states"] + acc.c["states"] + acc.c["fixpoint_boxes"],
        "transitions": acc.c["sched_transitions"] + acc.c["transitions"] + acc.c["calls"],
        "traces_validated_against_impl": acc.c["real_order_replays"],
        "evaluations": acc.c["passes_explored"] + acc.c["nt_unwatched_narrowings"],
        "distinct_nontrivial": acc.c["nt_passes_with_several_orders"] + acc.c["nt_unwatched_narrowings"],
        "rule": "(A) engine state = solver arrays (all variable orders); in each state where a pass starts, scheduler state = "
                "(domains, flag row, queue) and a transition = one real execution of one queued propagator through the real "
                "bound_consistency_algorithm body (pop_propagator replaced by the scheduler); every terminal state is checked "
                "(shrink-only, re-execution fixpoint, unique greatest fixpoint for all-exact-BC problems); the real pop order "
                "is replayed in every pass and must be an explored path (traces_validated_against_impl). (B) every fixpoint box "
                "x every single-variable narrowing whose events miss the declared mask. (C) every pass of real minimise / maximise "
                "runs (restarts included) is checked for shrink-only and for the re-execution fixpoint of every constraint that is "
                "enabled or not entailed by the current box. non-trivial = pass with more than one "
                "wake-up order / unwatched narrowing",
        "optimisation_runs_monitored": acc.c["solver_runs"], "solver_run_passes_checked": acc.c["solver_run_passes_checked"],
        "engine_states": acc.c["states"], "scheduler_states": acc.c["sched_states"], "passes": acc.c["passes_explored"],
        "exact_bc_passes": acc.c["nt_exact_bc_passes"], "posting_permutations": acc.c["nt_posting_permutations"],
        "problems": nspecs, "exhaustive": True,
        "bounds": f"tier={tier}: problems of U with <= {LIMIT[tier]} assignments, all wake-up orders of every pass "
                  "(no deviation bound was needed), all variable orders, value heuristics "
                  f"{'min, mid' if tier == 'quick' else 'min, max, split_low, mid'}; trigger sufficiency on the contract table",
    }
    return finish(PROP, tier, seed, "model_checking", acc, cov,
                  ["relation predicates / hull operators of mc/contracts.py", "problems with a gcc value of upper capacity 0 are "
                   "left to the C04/C06/C14 known finding (the propagator does not terminate on them)"],
                  t0, vacuity={"nt_passes_with_several_orders": 1000, "nt_unwatched_narrowings": 1000, "nt_exact_bc_passes": 1000})


def replay(entry):
    rc = 0
    for w in entry["witnesses"]:
        for _ in range(2):
            acc = Acc()
            if "type" in w:
                s2, o2, e2 = propmc.safe_call(w["type"], tuple(tuple(b) for b in w["narrowed"]), tuple(w["params"]))
                print("replay:", w["type"], w["params"], w["narrowed"], "->", s2, o2, e2)
                bad = bool(e2) or s2 == 0 or (w["type"] in K.BC_EXACT and [list(b) for b in o2] != w["narrowed"])
            else:
                check_spec(acc, w["spec"], "quick")
                bad = bool(acc.viol)
                print("replay:", w["spec"], "->", list(acc.viol) or "no violation")
            rc = rc or (1 if bad else 0)
    return rc
