"""C02 Enumeration yields each solution exactly once, whatever the search strategy and posting order."""
import itertools
import time
from collections import Counter

from mc import solvecheck as SC, solvemc as S, universe as U
from mc.runner import Acc, finish

PROP = "C02"


def posting_orders(spec, tier):
    cons = spec["cons"]
    k = len(cons)
    if k < 2:
        return []
    if k <= (4 if tier == "thorough" else 3):
        perms = list(itertools.permutations(range(k)))[1:]
    else:
        perms = [tuple(reversed(range(k))), tuple(range(1, k)) + (0,), tuple(range(k // 2, k)) + tuple(range(k // 2))]
    out = []
    for p in perms:
        s = dict(spec)
        s["cons"] = [cons[i] for i in p]
        out.append(s)
    return out


def layout(spec):
    return spec["tag"].split(":")[-1] if SC.family_of(spec) == "F1" else SC.family_of(spec)


def check_spec(acc, spec, tier):
    ref = Counter(U.brute(spec))
    nsol = sum(ref.values())
    variants = [(spec, "posted")] + [(s, "permuted") for s in posting_orders(spec, tier)]
    if len(spec["vars"]) != len(spec["doms"]) or any(d != j for j, (d, _) in enumerate(spec["vars"])):
        from mc.props.C13 import r_api  # the same problem declared through Problem.add_variable / add_variables

        for api in ("add_variable", "add_variables"):
            r = r_api(spec, api)
            if r:
                variants.append((r[1], "api"))
    if SC.family_of(spec) in ("F3", "F4") or tier == "thorough":
        # the other public spellings of a complete enumeration: Solver.find_all() and Solver.solve_all(callback)
        variants += [(spec, "entry:find_all"), (spec, "entry:solve_all")]
    for vs, vtag in variants:
        cfgs = S.configs_for(vs, tier, full=SC.family_of(spec) in ("F3", "F4", "F7"))
        if vtag == "permuted" and tier == "quick":
            cfgs = cfgs[:2] + cfgs[4:5]
        if vtag == "api":
            cfgs = cfgs[:1] + cfgs[4:5]
        entry = "solve"
        if vtag.startswith("entry:"):
            entry = vtag.split(":")[1]
            cfgs = cfgs[:1] + cfgs[5:6]
        for cfg in cfgs:
            o = S.run(vs, cfg, "enumerate", entry=entry)
            if entry != "solve":
                acc.c["nt_entry_runs"] += 1
            acc.c["runs"] += 1
            acc.c["propagator_executions"] += o.stats.get("PROPAGATOR_FILTER_NB", 0)
            acc.c["solutions_compared"] += len(o.solutions)
            if o.abort in ("budget", "index", "heuristic", "skipped"):
                acc.c["aborted_" + o.abort] += 1  # judged by C04 / C16
                continue
            if o.abort:
                acc.violation(f"{SC.con_types(spec)}:{layout(spec)}:{o.abort}", SC.witness(vs, cfg, error=o.abort_detail),
                              "the enumeration raised instead of yielding all solutions and stopping")
                continue
            got = Counter(o.solutions)
            if nsol:
                acc.c["nt_runs_on_satisfiable"] += 1
            if vtag == "permuted":
                acc.c["nt_permuted_runs"] += 1
            if got != ref:
                dup = sum(v - 1 for v in got.values() if v > 1)
                missing = sum(1 for k in ref if k not in got)
                extra = sum(1 for k in got if k not in ref)
                kind = "duplicate" if dup else ("missing" if missing else "extra")
                acc.violation(f"{SC.con_types(spec)}:{layout(spec)}:{kind}",
                              SC.witness(vs, cfg, entry=entry, yielded=len(o.solutions), expected=nsol, duplicates=dup, missing=missing,
                                         extra=extra, example=[list(k) for k in (set(ref) ^ set(got))][:3]),
                              "the multiset of yielded solutions differs from the brute-force enumeration")
            if not acc.samples and nsol > 1:
                acc.sample(SC.witness(vs, cfg, yielded=[list(x) for x in o.solutions[:4]], expected_count=nsol), cap=1)


def unit(u):
    tier, specs = u
    acc = Acc()
    for spec in specs:
        acc.c["problems"] += 1
        check_spec(acc, spec, tier)
    return acc


def run(tier, seed):
    t0 = time.time()
    acc, nspecs = SC.run_units(unit, tier, seed)
    cov = {
        "states": acc.c["runs"],
        "transitions": acc.c["propagator_executions"],
        "traces_validated_against_impl": acc.c["runs"],
        "evaluations": acc.c["runs"],
        "distinct_nontrivial": acc.c["nt_runs_on_satisfiable"],
        "rule": "state = one complete find-all run of the real solver on (problem of U, posting order, configuration); the "
                "multiset of yielded vectors is compared with the brute-force enumeration of the cartesian product; "
                "non-trivial = run on a satisfiable problem",
        "problems": nspecs,
        "permuted_posting_order_runs": acc.c["nt_permuted_runs"],
        "find_all_and_solve_all_runs": acc.c["nt_entry_runs"],
        "exhaustive": True,
        "bounds": f"tier={tier}: universe U families F1-F4; all posting permutations up to {'4' if tier == 'thorough' else '3'} "
                  "constraints (reversal + rotations beyond); variable order nondeterminism is covered by C07/C09 (EngineMC)",
    }
    return finish(PROP, tier, seed, "model_checking", acc, cov,
                  ["relation predicates of mc/contracts.py; brute force over the cartesian product of the shared domains",
                   "runs aborted by a step budget / IndexError / invalid heuristic answer are judged by C04 / C16"],
                  t0, vacuity={"nt_runs_on_satisfiable": 1000, "nt_permuted_runs": 100, "nt_entry_runs": 20})


def replay(entry):
    rc = 0
    for w in entry["witnesses"]:
        for _ in range(2):
            o = S.run(w["spec"], tuple(w["cfg"]), "enumerate", entry=w.get("entry", "solve"))
            ok = Counter(o.solutions) == Counter(U.brute(w["spec"])) and not o.abort
            print("replay:", w["spec"], w["cfg"], "->", "no violation" if ok else ("VIOLATION", sorted(o.solutions), o.abort))
            if not ok:
                rc = 1
    return rc
