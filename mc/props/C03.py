"""C03 minimize/maximize return a feasible optimum, or None exactly when infeasible (SolveMC + restart-history monitor)."""
import time

import numpy as np

from mc import solvecheck as SC, solvemc as S, universe as U
from mc.runner import Acc, finish
from nucs.solvers import backtrack_solver as BS

PROP = "C03"


class RestartMonitor:
    """Interposes reset / decrease_max / increase_min of the real optimisation loop."""

    def __init__(self, spec, var, mode):
        self.spec, self.var, self.mode = spec, var, mode
        self.events = []  # (incumbent value)
        self.problems = []
        self.real = {}

    def __enter__(self):
        for name in ("reset", "decrease_max", "increase_min"):
            self.real[name] = getattr(BS, name)
        mon = self

        def reset(problem, stack, ne, du, top, trig):
            mon.real["reset"](problem, stack, ne, du, top, trig)
            mon.after_reset = (stack[0].copy(), int(top[0]), bool(trig.all()), bool(ne[0].all()))

        def make(name):
            def upd(stack, top, dom_indices, dom_offsets, var_idx, value):
                mon.real[name](stack, top, dom_indices, dom_offsets, var_idx, value)
                mon.check_after_update(name, stack, top, int(var_idx), int(value))
            return upd

        BS.reset = reset
        BS.decrease_max = make("decrease_max")
        BS.increase_min = make("increase_min")
        return self

    def __exit__(self, *a):
        for name, f in self.real.items():
            setattr(BS, name, f)

    def check_after_update(self, name, stack, top, var_idx, value):
        spec = self.spec
        self.events.append(value)
        d, off = spec["vars"][var_idx]
        init = np.array(spec["doms"], dtype=np.int64)
        cur = stack[0].astype(np.int64)
        if int(top[0]) != 0:
            self.problems.append("stack-not-empty-after-reset")
        if var_idx != self.var:
            self.problems.append("wrong-variable-tightened")
        exp = init.copy()
        if name == "decrease_max":
            exp[d, 1] = value - 1 - off
        else:
            exp[d, 0] = value + 1 - off
        if not np.array_equal(cur, exp):
            self.problems.append(f"state-after-restart-differs:{cur.tolist()}!={exp.tolist()}")
        st, tp, trig, ne = self.after_reset
        if not trig or not ne:
            self.problems.append("queue-or-flags-not-refilled")
        if len(self.events) >= 2:
            a, b = self.events[-2], self.events[-1]
            if (name == "decrease_max" and not b < a) or (name == "increase_min" and not b > a):
                self.problems.append("incumbent-not-improving")


def layout(spec):
    return spec["tag"].split(":")[-1] if SC.family_of(spec) == "F1" else spec["tag"].replace(":", "/")


def check_spec(acc, spec, tier):
    sols = U.brute(spec)
    nv = len(spec["vars"])
    fam = SC.family_of(spec)
    if U.n_assignments(spec) > 5000:
        return
    objs = list(range(nv)) if (nv <= 4 or tier == "thorough") else sorted({0, nv // 2, nv - 1})
    cfgs = S.configs_for(spec, tier, full=fam in ("F4", "F7"))
    if tier == "quick" and fam == "F1":
        cfgs = cfgs[:1] + cfgs[4:5] + cfgs[2:3]
    for cfg in cfgs:
        for var in objs:
            for mode in ("min", "max"):
                best = None if not sols else (min if mode == "min" else max)(x[var] for x in sols)
                with RestartMonitor(spec, var, mode) as mon:
                    o = S.run(spec, cfg, mode, var)
                acc.c["runs"] += 1
                acc.c["restarts"] += len(mon.events)
                acc.c["propagator_executions"] += o.stats.get("PROPAGATOR_FILTER_NB", 0)
                acc.mx("max_restarts", len(mon.events))
                key0 = f"{SC.con_types(spec)}:{layout(spec)}"
                if o.abort in ("index", "skipped"):
                    acc.c["aborted_" + o.abort] += 1
                    continue
                if o.abort:
                    acc.violation(f"{key0}:no-termination-or-crash:{o.abort.split(':')[0]}",
                                  SC.witness(spec, cfg, mode=mode, var=var, error=o.abort_detail, restarts=mon.events[-5:]),
                                  "the optimisation call did not return (step budget) or raised")
                    continue
                if sols:
                    acc.c["nt_feasible_runs"] += 1
                else:
                    acc.c["nt_infeasible_runs"] += 1
                d, off = spec["vars"][var]
                lo, hi = spec["doms"][d]
                if len(mon.events) > (hi - lo + 1) + 1:
                    acc.violation(f"{key0}:too-many-restarts", SC.witness(spec, cfg, mode=mode, var=var, restarts=mon.events))
                if mon.problems:
                    acc.violation(f"{key0}:restart-history:{mon.problems[0].split(':')[0]}",
                                  SC.witness(spec, cfg, mode=mode, var=var, problems=mon.problems[:3]),
                                  "after an incumbent the solver state is not the initial state with only the objective bound moved")
                if o.result is None:
                    if sols:
                        acc.violation(f"{key0}:none-but-feasible", SC.witness(spec, cfg, mode=mode, var=var, optimum=best))
                    continue
                if not sols:
                    acc.violation(f"{key0}:result-but-infeasible", SC.witness(spec, cfg, mode=mode, var=var, result=list(o.result)))
                    continue
                why = SC.sol_ok(spec, o.result)
                if why:
                    acc.violation(f"{key0}:infeasible-result:{why}", SC.witness(spec, cfg, mode=mode, var=var, result=list(o.result)))
                elif o.result[var] != best:
                    acc.violation(f"{key0}:not-optimal", SC.witness(spec, cfg, mode=mode, var=var, result=list(o.result), optimum=best),
                                  "the returned solution does not have the optimal objective value")
                if len(mon.events) >= 2:
                    acc.c["nt_runs_with_2+_incumbents"] += 1
                if not acc.samples and len(mon.events) >= 2:
                    acc.sample(SC.witness(spec, cfg, mode=mode, var=var, incumbents=mon.events, result=list(o.result), optimum=best), cap=1)


def unit(u):
    tier, specs = u
    acc = Acc()
    for spec in specs:
        acc.c["problems"] += 1
        check_spec(acc, spec, tier)
    return acc


def mp_unit(u):
    """Optimisation distributed over sub-problems: every merge of the real workers' streams (SchedMC, as in C11)."""
    from mc.props import C11

    tier, cases = u
    inner = Acc()
    for spec, pname, subs, mode, var in cases:
        C11.check_case(inner, spec, pname, subs, mode, var, tier)
    out = Acc()
    out.c["mp_schedules"] = inner.c["schedules"]
    out.c["mp_cases"] = inner.c["cases"]
    for k, v in inner.viol.items():
        if k.startswith("optimise:") and "statistics" not in k:
            for w in v["witnesses"]:
                out.violation("multiprocessing:" + k, w, v["detail"])
            out.viol["multiprocessing:" + k]["count"] = v["count"]
    return out


def run(tier, seed):
    from mc.props import C11
    from mc.runner import chunks, pmap

    t0 = time.time()
    acc, nspecs = SC.run_units(unit, tier, seed)
    mp_cases = [c for c in C11.all_cases(tier) if c[3] != "solve"]
    mp_cases = mp_cases[:: (3 if tier == "quick" else 1)]
    acc.merge(pmap(mp_unit, [(tier, c) for c in chunks(mp_cases, 6)], seed))
    cov = {
        "states": acc.c["runs"] + acc.c["restarts"] + acc.c["mp_schedules"],
        "transitions": acc.c["propagator_executions"],
        "traces_validated_against_impl": acc.c["runs"],
        "evaluations": acc.c["runs"],
        "distinct_nontrivial": acc.c["nt_feasible_runs"],
        "rule": "state = one (problem of U, objective variable, direction, configuration) run of the real minimize/maximize, "
                "plus every restart state observed by interposing reset/decrease_max/increase_min; oracle = brute-force "
                "optimum, None iff infeasible, restart-state invariant, restart bound, step budget; non-trivial = feasible problem",
        "runs_with_several_incumbents": acc.c["nt_runs_with_2+_incumbents"],
        "multiprocessing_schedules": acc.c["mp_schedules"], "multiprocessing_cases": acc.c["mp_cases"],
        "infeasible_runs": acc.c["nt_infeasible_runs"],
        "problems": nspecs,
        "exhaustive": True,
        "bounds": f"tier={tier}: universe U families F1-F4 (<= 5000 assignments), every objective variable "
                  "(<= 4 variables; first/middle/last beyond in quick), both directions",
    }
    return finish(PROP, tier, seed, "model_checking", acc, cov,
                  ["relation predicates of mc/contracts.py; brute-force optimum",
                   "termination is decided as bounded termination (deterministic jump budget, DESIGN 2.9)",
                   "the multiprocessing variant is explored with SchedMC (every merge of the real workers' incumbent streams, a third of the "
                   "C11 optimisation cases in quick, all in thorough)"],
                  t0, vacuity={"nt_feasible_runs": 1000, "nt_infeasible_runs": 100, "nt_runs_with_2+_incumbents": 100})


def replay(entry):
    rc = 0
    for w in entry["witnesses"]:
        if "partition" in w:
            from mc.props import C11

            rc = rc or C11.replay({"witnesses": [w]})
            continue
        for _ in range(2):
            acc = Acc()
            spec = w["spec"]
            sols = U.brute(spec)
            with RestartMonitor(spec, w["var"], w["mode"]) as mon:
                o = S.run(spec, tuple(w["cfg"]), w["mode"], w["var"])
            best = None if not sols else (min if w["mode"] == "min" else max)(x[w["var"]] for x in sols)
            got = None if o.result is None else o.result[w["var"]]
            bad = o.abort or mon.problems or got != best
            print("replay:", spec, w["cfg"], w["mode"], w["var"], "-> result", o.result, "optimum", best, "abort", o.abort, mon.problems[:2])
            if bad:
                rc = 1
    return rc
