"""C05 Filtering never removes a value that takes part in a solution (PropMC, all 21 types)."""
import time

from mc import propmc
from mc.runner import finish

PROP = "C05"


def run(tier, seed):
    t0 = time.time()
    acc = propmc.run(PROP, tier, seed)
    calls = acc.c["calls"]
    nt = acc.c["nt_any"]
    cov = {
        "states": calls,
        "transitions": calls + acc.c["second_calls"],
        "traces_validated_against_impl": calls,
        "evaluations": calls,
        "distinct_nontrivial": nt,
        "rule": "every (type, arity, params, box) of the contract table (DESIGN 2.7) is one state, one real call each; "
                "non-trivial = distinct input on which the call pruned a bound, failed, or answered 'entailed'",
        "exhaustive": True,
        "instances": acc.c["instances"],
        "bounds": f"tier={tier}: arity<=3-4, 3-5 values per variable, all parameter vectors of the table, all boxes",
    }
    return finish(PROP, tier, seed, "model_checking", acc, cov,
                  ["relation predicates of mc/contracts.py (written from the documentation)",
                   "interpreted mode executes the same Python source numba compiles (bound to compiled mode by C15)"],
                  t0, vacuity={"pruned_types": 15, "failed_types": 15})


def replay(entry):
    rc = 0
    for w in entry["witnesses"]:
        for _ in range(2):
            acc = propmc.replay_witness(PROP, w)
            print("replay:", w, "->", {k: v["count"] for k, v in acc.viol.items()} or "no violation")
            if acc.viol:
                rc = 1
    return rc
