"""C05 Filtering never removes a value that takes part in a solution (PropMC, all 21 types)."""
import time

from mc import propmc, wide
from mc.runner import finish

PROP = "C05"


def run(tier, seed):
    t0 = time.time()
    acc = propmc.run(PROP, tier, seed)
    acc.merge(wide.run(PROP, tier, seed))
    calls = acc.c["calls"]
    nt = acc.c["nt_any"]
    cov = {
        "states": calls,
        "transitions": calls + acc.c["second_calls"],
        "traces_validated_against_impl": calls,
        "evaluations": calls,
        "distinct_nontrivial": nt,
        "rule": "every (type, arity, params, box) of the contract table (DESIGN 2.7) is one state, one real call each; "
                "non-trivial = distinct input on which the call pruned a bound, failed, or answered 'entailed'",
        "exhaustive": True,
        "instances": acc.c["instances"],
        "bounds": f"tier={tier}: arity<=3-4, 3-5 values per variable, all parameter vectors of the table, all boxes; plus boxes with bounds "
                  "from a wide alphabet (0, 1, 255, 256, 65535, 65536, +-70000 ...) for alldifferent, linear constraints, max_leq, min_geq "
                  "against closed-form / Hall-interval references (mc/wide.py)",
        "wide_domain_calls": acc.c["wide_calls"],
    }
    return finish(PROP, tier, seed, "model_checking", acc, cov,
                  ["relation predicates of mc/contracts.py (written from the documentation)",
                   "interpreted mode executes the same Python source numba compiles (bound to compiled mode by C15)"],
                  t0, vacuity={"pruned_types": 12, "failed_types": 12})


def replay(entry):
    rc = 0
    for w in entry["witnesses"]:
        for _ in range(2):
            if max(b[1] - b[0] for b in w["box"]) > 1000:  # wide-domain case: closed-form reference, not the truth cube
                box = tuple(tuple(b) for b in w["box"])
                st, out, exc = propmc.safe_call(w["type"], box, tuple(w["params"]))
                ref = wide.reference(w["type"], tuple(w["params"]), box)
                bad = exc is not None or (st == 0) != (ref is None) or (st != 0 and ref is not None and not all(
                    o[0] <= r[0] and o[1] >= r[1] for o, r in zip(out, ref))) or (PROP == "C14" and st != 0 and tuple(out) != ref)
                print("replay (wide):", w["type"], w["params"], w["box"], "->", st, out, exc, "reference", ref)
                rc = rc or (1 if bad else 0)
                continue
            acc = propmc.replay_witness(PROP, w)
            print("replay:", w, "->", {k: v["count"] for k, v in acc.viol.items()} or "no violation")
            if acc.viol:
                rc = 1
    return rc
