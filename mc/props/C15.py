"""C15 Results are reproducible, mode-independent and independent of earlier solver use (ModeMC + HistoryMC).

(a) the slice of the universe is solved in fresh processes in both execution modes (JIT-compiled with a private cache keyed
    by the source hash, and interpreted): identical solution sequences and statistics; (b) every case twice in one process;
(c) every history of earlier solver use up to a length (constructions, exhausted / abandoned enumerations, optimisation,
    shaving, reuse of the same Problem object, registration of a custom propagator / heuristics / consistency algorithm),
    each in a child forked from a pristine process, followed by a fixed probe whose observable outcome must equal the
    outcome in a pristine process - in both modes."""
import json
import time

from mc import modeworker as W, subproc
from mc.runner import Acc, HarnessError, finish

PROP = "C15"


def launch(kind, tier, nshards, compiled, extra=()):
    procs = []
    for sh in range(nshards):
        procs.append(subproc.popen_module("mc.modeworker", [kind, tier, sh, nshards] + list(extra), compiled))
    outs = []
    for p in procs:
        out, err = p.communicate(timeout=1200)
        if p.returncode != 0:
            raise HarnessError(f"modeworker {kind} failed (compiled={compiled}): {err[-1500:]}")
        outs.append((json.loads(out.strip().splitlines()[-1]), err))
    return outs


def run(tier, seed):
    t0 = time.time()
    acc = Acc()
    # warm the compiled cache once (cold compile of the whole engine), then shard
    rc, out, err = subproc.run_module("mc.modeworker", ["warm"], compiled=True, timeout=1800)
    if rc != 0:
        raise HarnessError("compiled warm-up failed: " + err[-1500:])
    nsh = 8
    inter = launch("slice", tier, nsh, False)
    inter_rev = launch("slice", tier, nsh, False, ["rev"])
    comp = launch("slice", tier, nsh, True)
    specs = W.slice_specs(tier)
    ci, cc = {}, {}
    for (o, err) in inter:
        ci.update(o["cases"])
        for m in o["inprocess_mismatch"]:
            acc.violation("interpreted:second-run-in-same-process-differs", m, "the same problem/configuration gave two different outcomes in one process")
    for (o, err) in comp:
        cc.update(o["cases"])
        for m in o["inprocess_mismatch"]:
            acc.violation("compiled:second-run-in-same-process-differs", m, "the same problem/configuration gave two different outcomes in one process")
        if "Exception ignored" in err or "Traceback" in err:
            acc.violation("compiled:exception-ignored-on-stderr", {"stderr": err[-800:]})
    cr = {}
    for (o, err) in inter_rev:
        cr.update(o["cases"])
    if set(ci) != set(cc) or set(ci) != set(cr):
        raise HarnessError("the workers did not run the same cases")
    for k in sorted(ci):
        if ci[k] != cr[k]:
            if k.startswith("deep-chain"):
                acc.violation("order-dependent-outcome:deep-chain", {"case": k, "forward": ci[k], "reversed": cr[k]})
                continue
            i = int(k.split("|")[0])
            acc.violation(f"order-dependent-outcome:{k.split('|')[2]}", {"case": k, "spec": specs[i], "cfg": k.split("|")[1].split("/"),
                                                                         "forward": ci[k], "reversed": cr[k]},
                          "the outcome of a case depends on which other problems were solved earlier in the same process")
    for k in sorted(ci):
        acc.c["cases"] += 1
        if ci[k][1] > 1:
            acc.c["nt_cases_with_2+_solutions"] += 1
        if ci[k] != cc[k]:
            if k.startswith("deep-chain"):
                acc.violation("mode-dependent-outcome:deep-chain", {"case": k, "meaning": "chain x_0 <= x_1 <= ...: deep-chain|variables|domain|stack_max_height|value heuristic; "
                                                                    "outcome = [digest, number of solutions, abort]", "interpreted": ci[k], "compiled": cc[k]},
                              "JIT-compiled and interpreted runs of a search as deep as the stack differ (solutions, statistics or refusal)")
                continue
            i = int(k.split("|")[0])
            cfg = k.split("|")[1].split("/")
            acc.violation(f"mode-dependent-outcome:{k.split('|')[2]}", {"case": k, "spec": specs[i], "cfg": cfg, "interpreted": ci[k], "compiled": cc[k]},
                          "JIT-compiled and interpreted runs differ (solution sequence, statistics or abort)")
    acc.sample({"case": next(iter(sorted(ci))), "digest_len_abort": ci[next(iter(sorted(ci)))]}, cap=1)
    # histories
    for compiled in (False, True):
        mode = "compiled" if compiled else "interpreted"
        results = [r for (o, err) in launch("histories", tier, 6, compiled) for r in o]
        pristine = [r for r in results if r["history"] == ""]
        if not pristine or "probe" not in pristine[0]:
            raise HarnessError("no pristine probe: " + str(pristine)[:500])
        base = pristine[0]["probe"]
        seen = set()
        for r in results:
            if r["history"] in seen:
                continue
            seen.add(r["history"])
            acc.c["histories"] += 1
            if r["history"]:
                acc.c["nt_nonempty_histories"] += 1
            if "G" in r["history"] or "N" in r["history"]:
                acc.c["nt_histories_with_registration"] += 1
            w = {"mode": mode, "history": r["history"], "ops": "A=exhaust queens4, B=minimise, P=abandon after 1 solution, R=reuse probe Problem, "
                 "G=register custom propagator/heuristics/consistency algorithm, S=shaving run, V=solve a variant of the probe "
                 "(same constraint types and arities, other parameters), L=extend and solve another problem declared from the list objects "
                 "part 'alias' of the probe is declared from, N=register and use a user propagator whose function has the same __name__ as "
                 "the one part 'custom' of the probe registers"}
            if "error" in r:
                acc.violation(f"{mode}:history-makes-probe-raise", dict(w, error=r["error"]), "after this history the probe raises")
                continue
            if r.get("problem_changed"):
                acc.violation(f"{mode}:solver-construction-changes-the-problem", w, "constructing/running a solver changed the Problem object")
            if r["probe"] != base:
                diff = [k for k in base if base[k] != r["probe"].get(k)]
                acc.violation(f"{mode}:probe-depends-on-history:{'+'.join(diff)}", dict(w, pristine=base[diff[0]], after_history=r["probe"][diff[0]]),
                              "the same problem/configuration gives a different outcome after earlier solver use in the process")
        acc.sample({"mode": mode, "histories": len(seen), "pristine_probe_enum_solutions": len(base["enum"]["solutions"])}, cap=3)
        if mode == "interpreted":
            base_i = base
        elif base != base_i:
            acc.violation("mode-dependent-outcome:probe", {"interpreted": base_i, "compiled": base})
    cov = {
        "states": acc.c["cases"] + acc.c["histories"],
        "transitions": 6 * acc.c["cases"] + acc.c["histories"],
        "traces_validated_against_impl": 2 * acc.c["cases"] + acc.c["histories"],
        "evaluations": 2 * acc.c["cases"] + acc.c["histories"],
        "distinct_nontrivial": acc.c["nt_cases_with_2+_solutions"] + acc.c["nt_nonempty_histories"],
        "rule": "case = (problem of the universe slice, configuration, enumerate|minimise): run twice in an interpreted process and "
                "twice in a JIT-compiled process, and in an interpreted process that runs the slice in reverse order, digests of (solution sequence, result, 13 statistics, abort) compared; history = "
                "every word over {A,B,P,R,G,S,V,L,N} up to the length bound, run in a child forked from a pristine process, then the "
                "fixed probe; non-trivial = case with >= 2 solutions / non-empty history",
        "histories_with_registration": acc.c["nt_histories_with_registration"],
        "exhaustive": True,
        "bounds": f"tier={tier}: {acc.c['cases']} cases; histories up to length {3 if tier == 'quick' else 4} interpreted, "
                  f"{2 if tier == 'quick' else 3} compiled",
    }
    return finish(PROP, tier, seed, "model_checking", acc, cov,
                  ["compiled runs use a private NUMBA_CACHE_DIR keyed by the hash of all nucs sources (numba's per-file cache does "
                   "not notice an edit of a callee in another file)"],
                  t0, vacuity={"nt_cases_with_2+_solutions": 500, "nt_nonempty_histories": 40, "nt_histories_with_registration": 10})


def replay(entry):
    rc = 0
    for w in entry["witnesses"]:
        if "history" in w:
            for compiled in (False, True):
                out = subproc.run_module("mc.modeworker", ["histories", "quick", 0, 1], compiled)[1]
                res = json.loads(out.strip().splitlines()[-1])
                base = [r for r in res if r["history"] == ""][0]["probe"]
                bad = [r["history"] for r in res if r.get("probe") != base]
                print("replay histories", "compiled" if compiled else "interpreted", "-> differing:", bad[:10] or "none")
                rc = rc or (1 if bad else 0)
        elif str(w.get("case", "")).startswith("deep-chain"):
            import subprocess, sys
            code = ("import json,sys,ast\nfrom mc import modeworker as W, universe as U\n_, n, dom, stack, heur = sys.argv[1].split('|')\nn=int(n); dom=ast.literal_eval(dom)\n"
                    "spec = U.spec([dom]*n, [(i,0) for i in range(n)], [('affine_leq',[i,i+1],(1,-1,0)) for i in range(n-1)], 'deep-chain')\n"
                    "a = W.run_case(spec, ('bc','first',heur,None), 'enumerate', None, int(stack))\nprint(json.dumps([W.digest(a), len(a['solutions']), a['abort']]))")
            outs = []
            for compiled in (False, True):
                p = subprocess.run([sys.executable, "-B", "-c", code, w["case"]], env=subproc.child_env(compiled), capture_output=True, text=True, cwd="/verif")
                outs.append(p.stdout.strip().splitlines()[-1] if p.stdout.strip() else p.stderr[-300:])
            print("replay:", w["case"], "-> interpreted", outs[0][:300], "| compiled", outs[1][:300])
            rc = rc or (1 if outs[0] != outs[1] else 0)
        elif "spec" in w:
            import subprocess, sys
            code = "import json,sys\nfrom mc import modeworker as W\nw=json.loads(sys.argv[1])\nprint(json.dumps(W.run_case(w['spec'], tuple(None if c=='None' else c for c in w['cfg'])+((None,) if len(w['cfg'])==3 else ()), w['case'].split('|')[2], len(w['spec']['vars'])-1 if w['case'].endswith('min') else None)))"
            outs = []
            for compiled in (False, True):
                p = subprocess.run([sys.executable, "-B", "-c", code, json.dumps(w)], env=subproc.child_env(compiled), capture_output=True, text=True, cwd="/verif")
                outs.append(p.stdout.strip().splitlines()[-1] if p.stdout.strip() else p.stderr[-300:])
            print("replay:", w["case"], "-> interpreted", outs[0][:300], "| compiled", outs[1][:300])
            rc = rc or (1 if outs[0] != outs[1] else 0)
    return rc
