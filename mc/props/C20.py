"""C20 Shipped models yield only valid combinatorial objects, with the known counts (ShippedMC).

Every shipped model x instance grid x symmetry breaking on/off x configurations x 1..3 processes, in compiled mode
(sub-processes, private cache): every solution goes through a definition-level validator written from the problem
statements; counts are compared with the literature / brute force, optima with known optima / brute force; all
configurations of one instance must agree; symmetry breaking must keep satisfiability and the optimum."""
import json
import math
import subprocess
import sys
import time
from concurrent.futures import ThreadPoolExecutor

from mc import subproc
from mc.runner import Acc, HarnessError, chunks, finish

PROP = "C20"
QUEENS = {1: 1, 2: 0, 3: 0, 4: 2, 5: 10, 6: 4, 7: 40, 8: 92, 9: 352, 10: 724}
LATIN = {1: 1, 2: 2, 3: 12, 4: 576}
MAGIC_SEQ = {1: 0, 2: 0, 3: 0, 4: 2, 5: 1, 6: 0}
GOLOMB = {4: 6, 5: 11, 6: 17, 7: 25, 8: 34}
SUDOKU1 = [[0, 0, 0, 0, 3, 0, 0, 0, 0], [2, 8, 9, 0, 0, 0, 0, 0, 0], [0, 0, 5, 7, 0, 0, 0, 9, 0], [0, 0, 0, 0, 0, 0, 8, 0, 6],
           [0, 0, 0, 3, 0, 0, 1, 0, 0], [7, 1, 0, 0, 0, 6, 0, 0, 2], [0, 6, 3, 0, 0, 0, 0, 0, 0], [0, 0, 0, 0, 4, 0, 2, 0, 0],
           [0, 0, 1, 0, 5, 0, 6, 0, 0]]
KNAP = [[40, 40, 38, 38, 36, 36, 34, 34, 32, 32, 30, 30, 28, 28, 26, 26, 24, 24, 22, 22]] * 2 + [55]
TSP4 = [[0, 2, 1, 2], [2, 0, 2, 1], [1, 2, 0, 2], [2, 1, 2, 0]]
TSP5 = [[0, 3, 4, 2, 7], [3, 0, 4, 6, 3], [4, 4, 0, 5, 8], [2, 6, 5, 0, 6], [7, 3, 8, 6, 0]]
TSP4A = [[0, 1, 9, 9], [9, 0, 5, 6], [7, 9, 0, 5], [6, 8, 7, 0]]  # asymmetric
TSP5A = [[0, 2, 9, 4, 7], [8, 0, 3, 9, 1], [5, 6, 0, 2, 9], [9, 1, 7, 0, 3], [2, 9, 4, 8, 0]]
# two clusters of four towns: cheap inside a cluster, expensive between clusters (sub-tours are tempting)
TSP8C = [[0 if i == j else (1 if (i < 4) == (j < 4) else 9) for j in range(8)] for i in range(8)]
TSP6 = [[0, 5, 5, 2, 9, 4], [5, 0, 3, 7, 2, 6], [5, 3, 0, 4, 8, 1], [2, 7, 4, 0, 6, 3], [9, 2, 8, 6, 0, 5], [4, 6, 1, 3, 5, 0]]


def cases(tier):
    th = tier == "thorough"
    cs = []  # (case, expectation dict)

    def add(model, params, opt=None, **exp):
        cs.append(([model, params, opt or {}], exp))

    for n in range(1, 11 if th else 9):
        for cfg in ("bc", "smallest-mid", "shaving") if n <= 7 else ("bc",):
            add("queens", [n], {"cfg": cfg}, count=QUEENS[n], group=f"queens{n}")
        if 4 <= n <= 7:
            for procs in (2, 3):
                add("queens", [n], {"cfg": "bc", "procs": procs}, count=QUEENS[n], group=f"queens{n}")
    for n in range(1, 5):
        for cfg in ("bc", "smallest-mid") + (("shaving",) if n <= 3 else ()):
            add("latin", [n], {"cfg": cfg}, count=LATIN[n], group=f"latin{n}")
            if n <= 3 or cfg == "bc":
                add("latin_rc", [n], {"cfg": cfg}, count=LATIN[n], group=f"latin{n}")
        add("latin", [n], {"cfg": "bc", "procs": 2}, count=LATIN[n], group=f"latin{n}")
    for n, cnt in ((5, None), (6, None), (7, 3), (8, 1)) + (((9, 0),) if th else ()):
        add("quasigroup5", [n], {"cfg": "bc", "sym": True}, count=cnt, group=f"qg5-{n}-sym")
        if n <= 7:
            add("quasigroup5", [n], {"cfg": "smallest-mid", "sym": True}, count=cnt, group=f"qg5-{n}-sym")
            add("quasigroup5", [n], {"cfg": "bc", "sym": False}, symgroup=f"qg5-{n}", group=f"qg5-{n}-nosym")
    for n in (1, 2, 3, 4, 5) + ((6,) if th else ()):
        for cfg in ("bc", "smallest-mid") + (("shaving",) if n <= 4 else ()):
            add("quasigroup", [n], {"cfg": cfg, "sym": False}, reference=True, group=f"qg-{n}-nosym", symgroup=f"qg-{n}")
            add("quasigroup", [n], {"cfg": cfg, "sym": True}, group=f"qg-{n}-sym", symgroup=f"qg-{n}")
        if n >= 3:
            add("quasigroup", [n], {"cfg": "bc", "sym": False, "procs": 2}, reference=True, group=f"qg-{n}-nosym")
    for n, sym, cnt in ((2, True, 0), (3, True, 1), (3, False, 8), (4, True, 880)) + (((4, False, 7040),) if th else ()):
        add("magic_square", [n], {"cfg": "bc", "sym": sym}, count=cnt, group=f"msq{n}{sym}")
        if n <= 3:
            add("magic_square", [n], {"cfg": "shaving", "sym": sym}, count=cnt, group=f"msq{n}{sym}")
            add("magic_square", [n], {"cfg": "smallest-mid", "sym": sym, "procs": 2}, count=cnt, group=f"msq{n}{sym}")
    for n in range(1, 31 if th else 13):
        cnt = MAGIC_SEQ.get(n, 1)
        for cfg in ("bc", "smallest-mid") + (("shaving",) if n <= 8 else ()):
            add("magic_sequence", [n], {"cfg": cfg}, count=cnt, group=f"mseq{n}")
        if n in (4, 5, 7):
            add("magic_sequence", [n], {"cfg": "bc", "procs": 3}, count=cnt, group=f"mseq{n}")
    for n in (4, 5, 6, 7) + ((8,) if th else ()):
        for sym in (True, False):
            add("golomb", [n], {"cfg": "bc", "sym": sym}, optimum=GOLOMB[n])
            if n <= 6:
                add("golomb", [n], {"cfg": "bc", "sym": sym, "custom_alg": True}, optimum=GOLOMB[n])
        if n <= 5:
            add("golomb", [n], {"cfg": "shaving", "sym": True}, optimum=GOLOMB[n])
    for marks in ([0, 1, 4, 9, 11], [0, 1, 4, 10, 12, 17], [0, 1, 6, 10, 23, 26, 34, 41, 53, 55], [0, 1, 4, 13, 28, 33, 47, 54, 64, 70, 72],
                  [0, 2, 6, 24, 29, 40, 43, 55, 68, 75, 76, 85], [0, 2, 5, 25, 37, 43, 59, 70, 85, 89, 98, 99, 106]):
        for sym in (True, False):
            add("golomb_accept", [marks], {"cfg": "bc", "sym": sym}, count=1)
    for n, L in ((4, 9), (5, 16)) + (((5, 20), (6, 24)) if th else ((5, 20),)):
        for sym in (True, False):
            add("golomb_enum", [n, L], {"cfg": "bc", "sym": sym}, reference=True, group=f"golomb-enum{n}-{L}-{sym}")
            if L <= 16:
                add("golomb_enum", [n, L], {"cfg": "smallest-mid", "sym": sym}, reference=True, group=f"golomb-enum{n}-{L}-{sym}")
                add("golomb_enum", [n, L], {"cfg": "bc", "sym": sym, "custom_alg": True}, reference=True, group=f"golomb-enum{n}-{L}-{sym}")
    add("bibd", [6, 10, 5, 3, 2], {"cfg": "bc", "sym": True}, count=1)
    add("bibd", [7, 7, 3, 3, 1], {"cfg": "bc", "sym": True}, count=1)
    add("bibd", [7, 7, 3, 3, 1], {"cfg": "bc", "sym": False, "limit": 200}, min_count=200)
    add("bibd", [6, 10, 5, 3, 2], {"cfg": "bc", "sym": False, "limit": 50}, min_count=50)
    if th:
        add("bibd", [8, 14, 7, 4, 3], {"cfg": "bc", "sym": True}, count=92)
    for n in range(3, 12 if th else 10):
        add("schur", [n], {"cfg": "bc", "sym": False}, reference=True, group=f"schur{n}nosym", symgroup=f"schur{n}")
        add("schur", [n], {"cfg": "smallest-mid", "sym": False}, reference=True, group=f"schur{n}nosym")
        add("schur", [n], {"cfg": "bc", "sym": True}, symgroup=f"schur{n}", group=f"schur{n}sym")
        if n <= 7:
            add("schur", [n], {"cfg": "shaving", "sym": True}, group=f"schur{n}sym")
    for n in (13, 14):
        add("schur", [n], {"cfg": "bc", "sym": True}, count={13: 8, 14: 0}[n] if False else None, symgroup=f"schur{n}", group=f"schur{n}sym")
    for n in (4, 6) + ((8,) if th else ()):
        add("sts", [n], {"cfg": "smallest-mid" if False else "bc", "sym": True, "limit": 30}, symgroup=f"sts{n}")
        if n <= 6:
            add("sts", [n], {"cfg": "bc", "sym": False, "limit": 30}, symgroup=f"sts{n}")
    for n in range(2, 10 if th else 9):
        for cfg in ("bc", "split", "shaving") if n <= 5 else (("bc", "greatest-max") if n <= 8 else ("bc",)):
            add("circuit", [n], {"cfg": cfg}, count=math.factorial(n - 1), group=f"circuit{n}")
    add("tsp", [TSP8C], {"cfg": "bc"}, reference_optimum=True)
    add("tsp", [TSP8C], {"cfg": "bc", "cost_heuristics": True}, reference_optimum=True)
    add("knapsack", KNAP, {"cfg": "greatest-max"}, optimum=54, reference_optimum=True)
    add("knapsack", [[3, 4, 2, 5], [2, 3, 4, 1], 6], {"cfg": "bc"}, reference_optimum=True)
    add("knapsack", [[3, 4, 2, 5], [2, 3, 4, 1], 6], {"cfg": "shaving"}, reference_optimum=True)
    for m in (TSP4, TSP5, TSP6, TSP4A, TSP5A):
        add("tsp", [m], {"cfg": "bc"}, reference_optimum=True)
        add("tsp", [m], {"cfg": "bc", "cost_heuristics": True}, reference_optimum=True)
        add("tsp", [m], {"cfg": "shaving", "cost_heuristics": True}, reference_optimum=True)
    if th:
        add("tsp", ["GR17"], {"cfg": "bc", "cost_heuristics": True}, reference_optimum=True)
    add("sudoku", [SUDOKU1], {"cfg": "bc"}, count=1)
    add("sudoku", [SUDOKU1], {"cfg": "shaving"}, count=1)
    add("donald", [], {"cfg": "bc"}, count=1)
    add("donald", [], {"cfg": "smallest-mid"}, count=1)
    add("alpha", [], {"cfg": "bc"}, count=1)
    return cs


def run_cases(cs, compiled=True):
    envd = subproc.child_env(compiled)
    batches = chunks([c for c, _ in cs], 6)

    def task(batch):
        p = subprocess.run([sys.executable, "-B", "-m", "mc.shipworker", json.dumps(batch)], env=envd, capture_output=True, text=True,
                           cwd="/verif", timeout=1200)
        out = {}
        for line in p.stdout.splitlines():
            if line.startswith("CASE "):
                r = json.loads(line[5:])
                out[json.dumps(r["case"])] = r
        for c in batch:
            out.setdefault(json.dumps(c), {"case": c, "error": f"no result (exit {p.returncode}): {p.stderr[-300:]}"})
        return out

    res = {}
    with ThreadPoolExecutor(14) as ex:
        for r in ex.map(task, batches):
            res.update(r)
    return res


def run(tier, seed):
    t0 = time.time()
    acc = Acc()
    cs = cases(tier)
    rc, out, err = subproc.run_module("mc.modeworker", ["warm"], compiled=True, timeout=1800)
    res = run_cases(cs)
    groups, symgroups = {}, {}
    for case, exp in cs:
        r = res[json.dumps(case)]
        model = case[0]
        acc.c["cases"] += 1
        acc.c["solutions_validated"] += r.get("count", 1 if r.get("optimum") is not None else 0)
        w = {"case": case, "result": {k: v for k, v in r.items() if k != "case"}, "expected": {k: v for k, v in exp.items() if k not in ("group", "symgroup")}}
        key0 = f"{model}:{'x'.join(map(str, case[1])) if model not in ('tsp', 'sudoku', 'knapsack', 'golomb_accept') else len(case[1][0])}"
        if "error" in r:
            acc.violation(f"{key0}:error", w, "the shipped model could not be solved")
            continue
        if r.get("count", 1) > 0:
            acc.c["nt_cases_with_solutions"] += 1
        if r.get("invalid"):
            acc.violation(f"{key0}:invalid-solution", w, "a solution of a shipped model is not a valid instance of the named problem (definition-level validator)")
        if "count" in r and r.get("distinct") is not None and r["distinct"] != r["count"]:
            acc.violation(f"{key0}:duplicate-solution", w)
        if exp.get("count") is not None and r.get("count") != exp["count"]:
            acc.violation(f"{key0}:wrong-count", w, "the number of solutions differs from the value known from the literature / brute force")
        if exp.get("min_count") is not None and r.get("count", 0) < exp["min_count"]:
            acc.violation(f"{key0}:too-few-solutions", w)
        if exp.get("reference") and "reference_count" in r and r["count"] != r["reference_count"]:
            acc.violation(f"{key0}:wrong-count", w, "the number of solutions differs from the brute-force count")
        if exp.get("optimum") is not None and r.get("optimum") != exp["optimum"]:
            acc.violation(f"{key0}:wrong-optimum", w, "the optimum differs from the known optimum")
        if exp.get("reference_optimum") and r.get("optimum") != r.get("reference_optimum"):
            acc.violation(f"{key0}:wrong-optimum", w, "the optimum differs from the brute-force optimum")
        if "group" in exp:
            groups.setdefault(exp["group"], []).append((case, r.get("count")))
        if "symgroup" in exp:
            symgroups.setdefault(exp["symgroup"], []).append((case, r.get("count")))
        if not acc.samples and r.get("count", 0) > 1:
            acc.sample(w, cap=1)
    for g, items in groups.items():
        if len({c for _, c in items}) > 1:
            acc.violation(f"{g}:configurations-disagree", {"group": g, "counts": [[c, n] for c, n in items]},
                          "two configurations / process counts give different numbers of solutions for the same instance")
    for g, items in symgroups.items():
        sat = {bool(n) for _, n in items if n is not None}
        if len(sat) > 1:
            acc.violation(f"{g}:symmetry-breaking-changes-satisfiability", {"group": g, "counts": [[c, n] for c, n in items]})
    n = len(cs)
    cov = {
        "evaluations": acc.c["solutions_validated"],
        "distinct_nontrivial": acc.c["nt_cases_with_solutions"],
        "rule": "case = (shipped model, instance, symmetry breaking, configuration, number of processes) run in compiled mode; every "
                "solution is checked by a definition-level validator, counts / optima against literature or brute force, agreement "
                "between configurations, satisfiability with and without symmetry breaking; non-trivial = case with a solution",
        "samples": acc.samples[:2] or [{"cases": n}],
        "states": n, "transitions": acc.c["solutions_validated"], "traces_validated_against_impl": n,
        "cases": n, "exhaustive": True,
        "bounds": f"tier={tier}: queens 1..{10 if tier == 'thorough' else 8}, latin 1..4 (two models), idempotent quasigroup 1..5 (6), quasigroup5 5..{9 if tier == 'thorough' else 8}, "
                  "magic square 2..4, magic sequence 1..12 (30), Golomb 4..7 (8) + known optimal rulers of 5-13 marks accepted + all rulers of 4-5 (6) marks up to a length, BIBD, Schur 3..9 (11) + 13,14, STS 4,6 (8), circuit 2..8 (9), clustered 8-town TSP, "
                  "knapsack, TSP 4-6 cities (+GR17), sudoku, donald, alpha; 1..3 processes on queens / latin / magic",
    }
    return finish(PROP, tier, seed, "exploration", acc, cov,
                  ["validators of mc/shipworker.py are written from the problem definitions (CSPLib), counts from the literature",
                   "a finite instance grid is enumerated; nothing is claimed beyond it"],
                  t0, vacuity={"nt_cases_with_solutions": 60, "solutions_validated": 3000})


def replay(entry):
    rc = 0
    for w in entry["witnesses"]:
        if "case" not in w:
            continue
        res = run_cases([(w["case"], {})])
        r = res[json.dumps(w["case"])]
        print("replay:", w["case"], "->", {k: v for k, v in r.items() if k != "case"}, "expected", w.get("expected"))
        exp = w.get("expected", {})
        bad = r.get("invalid") or "error" in r or (exp.get("count") is not None and r.get("count") != exp["count"]) or (
            exp.get("optimum") is not None and r.get("optimum") != exp["optimum"]) or (
            exp.get("reference_optimum") and r.get("optimum") != r.get("reference_optimum")) or (
            exp.get("reference") and "reference_count" in r and r.get("count") != r["reference_count"]) or (
            r.get("distinct") is not None and r.get("count") is not None and r["distinct"] != r["count"])
        rc = rc or (1 if bad else 0)
    return rc
