"""C18 A dying worker process cannot hang the multiprocessing solver (SchedMC with fault injection).

For every worker, every crash point (after j = 0 .. L-1 of its L messages: before the first message, between two solutions,
just before the completion marker) and every schedule (merge of the surviving streams, placement of the observation of the
death, spurious timeouts up to the deviation bound) the real parent must return or raise; a blocking read that nothing can
satisfy (deadlock) or unbounded polling (hang) is the violation.  Thorough adds real-process replays (os._exit in a worker)."""
import itertools
import os
import time
from collections import Counter

from mc import mpcases, schedmc as M, solvecheck as SC, solvemc as S, universe as U
from mc.runner import Acc, finish, pmap, chunks

PROP = "C18"


def stream_lengths(solvers, mode, var):
    out = []
    for w, sv in enumerate(solvers):
        name, args = ("solve_and_queue", (w,)) if mode == "solve" else (("minimize_and_queue" if mode == "min" else "maximize_and_queue"), (var, w))
        out.append(len(M.worker_stream(sv, name, args)))
    return out


def fault_plans(lengths, max_deaths):
    n = len(lengths)
    plans = []
    for k in range(1, max_deaths + 1):
        for ws in itertools.combinations(range(n), k):
            for js in itertools.product(*[range(lengths[w]) for w in ws]):
                plans.append(list(zip(ws, js)))
    return plans


def crash_class(j, L):
    return "before-first-message" if j == 0 else ("just-before-marker" if j == L - 1 else "between-solutions")


def check_case(acc, spec, pname, subs, mode, var, tier, max_execs=20000):
    solvers = mpcases.make_solvers(subs)
    lengths = stream_lengths(solvers, mode, var)
    cache = {}
    bound = 1 if tier == "quick" else 2
    base = {"spec": SC.short(spec), "partition": pname, "parts": [s["doms"] for s in subs], "mode": mode, "var": var}
    plans = [(f, False) for f in fault_plans(lengths, 1 if tier == "quick" else 2)]
    plans += [(f, True) for f in fault_plans(lengths, 1)]  # the death happens in the second run of a reused solver object
    for faults, reuse in plans:
        def run_fn(prefix, _f=faults, _r=reuse):
            return M.run_parent(solvers, mode, var, cache, _f, prefix, "eager", reuse=_r)

        classes = "+".join(sorted({crash_class(j, lengths[w]) for w, j in faults}))
        acc.add("crash_classes", classes)
        acc.c["fault_plans"] += 1
        for res in M.explore(run_fn, bound, max_execs):
            acc.c["schedules"] += 1
            acc.c["deliveries"] += sum(1 for e in res.events if e.startswith("get"))
            w = dict(base, faults=[list(f) for f in faults], reuse=reuse, schedule=res.events[-12:], choices=[t[2] for t in res.trace])
            if getattr(res, "capped", False):
                acc.caps.append(f"schedule cap hit on {spec['tag']} {pname}")
            key0 = "solve" if mode == "solve" else "optimise"
            if res.hang:
                kind = "blocking-get" if res.hang.startswith("Deadlock") else "endless-polling"
                acc.violation(f"{key0}:{kind}:worker-death{':reused-solver' if reuse else ''}", dict(w, hang=res.hang),
                              "a worker died before its completion marker and the caller's call never returns")
                continue
            if any("observed terminated" in e for e in res.events):
                acc.c["nt_schedules_observing_death"] += 1
            if res.error:
                acc.c["outcome_raised"] += 1
                acc.add("outcomes", "raised:" + res.error.split(":")[0])
            else:
                acc.c["outcome_returned"] += 1
                acc.add("outcomes", "returned")
            # whatever was delivered is yielded at most once, and nothing else
            if mode == "solve":
                sols_in_streams = Counter()
                for wk, st in enumerate(res.world.streams):
                    for k in range(res.world.avail(wk)):
                        if st[k][1] is not None:
                            sols_in_streams[tuple(int(v) for v in st[k][1])] += 1
                extra = Counter(res.yielded) - sols_in_streams
                if extra:
                    acc.violation(f"{key0}:yields-solution-never-sent", dict(w, extra=sorted(extra)),
                                  "a solution was yielded more often than the workers sent it")
                if not res.error and Counter(res.yielded) != sols_in_streams:
                    acc.violation(f"{key0}:returns-without-survivors-results", dict(w, yielded=len(res.yielded), sent=sum(sols_in_streams.values())),
                                  "the call returned normally but dropped results the workers had delivered")
            if not acc.samples and res.error:
                acc.sample(dict(w, outcome=res.error), cap=1)
    acc.c["cases"] += 1


def unit(u):
    tier, cases = u
    acc = Acc()
    for spec, pname, subs, mode, var in cases:
        check_case(acc, spec, pname, subs, mode, var, tier)
    return acc


def all_cases(tier):
    cases = []
    for spec in mpcases.mp_specs(tier):
        nsol = len(U.brute(spec))
        if nsol > (4 if tier == "quick" else 6):
            continue
        nv = len(spec["vars"])
        for pname, subs in mpcases.partitions(spec, tier):
            if tier == "quick" and pname.startswith("cut") and len(subs) == 3 and nsol > 3:
                continue
            cases.append((spec, pname, subs, "solve", None))
            cases.append((spec, pname, subs, "min", nv - 1))
            cases.append((spec, pname, subs, "max", 0))
    return cases


# ---- real-process replays (thorough): the three crash classes with a worker that really dies ----------------------
def real_replays(acc):
    import multiprocessing as mp
    import subprocess
    import sys

    code = r'''
import os, sys, time
sys.path.insert(0, "/repo")
os.environ["NUMBA_DISABLE_JIT"] = "1"
import logging; logging.disable(logging.CRITICAL)
from nucs.problems.problem import Problem
from nucs.solvers.backtrack_solver import BacktrackSolver
from nucs.solvers.multiprocessing_solver import MultiprocessingSolver
from nucs.propagators.propagators import ALG_ALLDIFFERENT
crash_after = int(sys.argv[1]); mode = sys.argv[2]
class Dying(BacktrackSolver):
    def solve_and_queue(self, idx, q):
        class Q:
            n = 0
            def put(s, m):
                if Q.n >= crash_after:
                    time.sleep(0.2); os._exit(9)
                Q.n += 1; q.put(m)
        super().solve_and_queue(idx, Q())
    def optimize_and_queue(self, v, f, idx, q):
        class Q:
            n = 0
            def put(s, m):
                if Q.n >= crash_after:
                    time.sleep(0.2); os._exit(9)
                Q.n += 1; q.put(m)
        super().optimize_and_queue(v, f, idx, Q())
def prob(lo, hi):
    p = Problem([(lo, hi), (0, 2)]); p.add_propagator(([0, 1], ALG_ALLDIFFERENT, [])); return p
solvers = [Dying(prob(0, 0), log_level="ERROR"), BacktrackSolver(prob(1, 2), log_level="ERROR")]
ms = MultiprocessingSolver(solvers, log_level="ERROR")
t = time.time()
try:
    r = list(ms.solve()) if mode == "solve" else ms.minimize(1)
    print("RETURNED", len(r) if mode == "solve" else r, round(time.time() - t, 1))
except Exception as e:
    print("RAISED", type(e).__name__, round(time.time() - t, 1))
'''
    for mode in ("solve", "min"):
        for crash_after, cls in ((0, "before-first-message"), (1, "between-solutions"), (2, "just-before-marker")):
            acc.c["real_process_replays"] += 1
            try:
                p = subprocess.run([sys.executable, "-c", code, str(crash_after), mode], capture_output=True, text=True, timeout=60)
                out = p.stdout.strip().splitlines()[-1] if p.stdout.strip() else "NO-OUTPUT " + p.stderr[-300:]
            except subprocess.TimeoutExpired:
                out = "TIMEOUT"
            acc.add("real_outcomes", out.split(" ")[0])
            if not (out.startswith("RETURNED") or out.startswith("RAISED")):
                acc.violation(f"real-process:{mode}:{cls}:no-return-within-60s", {"mode": mode, "crash_after_messages": crash_after, "outcome": out},
                              "with real processes, a worker killed by os._exit leaves the caller blocked")


def run(tier, seed):
    t0 = time.time()
    cases = all_cases(tier)
    acc = pmap(unit, [(tier, c) for c in chunks(cases, 4)], seed)
    if tier == "thorough":
        real_replays(acc)
    cov = {
        "evaluations": acc.c["schedules"],
        "distinct_nontrivial": acc.c["nt_schedules_observing_death"] if acc.c["nt_schedules_observing_death"] else acc.c["fault_plans"],
        "rule": "fault plan = (worker, crash point j in 0..L-1) [pairs of workers in thorough]; for each plan every schedule (merge "
                "of the truncated streams, spurious timeouts, late observation of the death up to the deviation bound) is replayed "
                "against the real parent; non-trivial = schedule in which the parent observes the death",
        "samples": acc.samples[:3] or [{"note": "no error outcome observed"}],
        "states": acc.c["schedules"], "transitions": acc.c["deliveries"], "traces_validated_against_impl": acc.c["schedules"] + acc.c["real_process_replays"],
        "fault_plans": acc.c["fault_plans"], "cases": acc.c["cases"],
        "outcomes": {"returned": acc.c["outcome_returned"], "raised": acc.c["outcome_raised"]},
        "exhaustive": True,
        "bounds": f"tier={tier}: 1..3 workers, {'1 death' if tier == 'quick' else '1-2 simultaneous deaths'}, every crash point, "
                  f"deviation bound {1 if tier == 'quick' else 2}, poll limit {M.POLL_LIMIT}",
    }
    return finish(PROP, tier, seed, "fault_enumeration", acc, cov,
                  ["the bounded-time clause is decided in virtual time (a fixed number of polls after the last event); "
                   "thorough adds six real-process replays under a 60 s deadline",
                   "a message already in the pipe is returned by get() at once; a dead worker's messages are all in the pipe"],
                  t0, vacuity={"fault_plans": 100, "schedules": 1000})


def replay(entry):
    rc = 0
    for w in entry["witnesses"]:
        if "spec" not in w:
            acc = Acc()
            real_replays(acc)
            print("replay (real processes):", list(acc.viol) or "no violation")
            rc = rc or (1 if acc.viol else 0)
            continue
        for _ in range(2):
            import copy
            subs = []
            for doms in w["parts"]:
                s = copy.deepcopy(w["spec"])
                s["doms"] = doms
                subs.append(s)
            solvers = mpcases.make_solvers(subs)
            res = M.run_parent(solvers, w["mode"], w["var"], {}, [tuple(f) for f in w["faults"]], w["choices"], "eager", reuse=w.get("reuse", False))
            print("replay:", w["partition"], w["mode"], "faults", w["faults"], res.events[-8:], "-> hang", res.hang, "error", res.error)
            rc = rc or (1 if res.hang else 0)
    return rc
