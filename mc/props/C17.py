"""C17 Reported statistics are exact counts obeying conservation laws (SolveMC with counting interposition)."""
import time

import numpy as np

from mc import solvecheck as SC, solvemc as S, universe as U
from mc.runner import Acc, finish

PROP = "C17"


class Count(S.Observer):
    def __init__(self):
        self.n = dict(filter=0, entail=0, incons_status=0, nochange=0, bc=0, bc_incons=0, shaving_alg=0, shave=0,
                      shave_change=0, shave_nochange=0, choice=0, backtrack=0, cp_put=0, depth_branch=0, depth_any=0)

    def on_filter(self, prop_idx, alg, before, after, status):
        self.n["filter"] += 1
        if status == 2:
            self.n["entail"] += 1
        if status == 0:
            self.n["incons_status"] += 1
        elif np.array_equal(before, after):
            self.n["nochange"] += 1

    def on_pass_start(self, a):
        self.n["bc"] += 1
        self.n["depth_any"] = max(self.n["depth_any"], int(a[13][0]))

    def on_pass_end(self, a, status):
        if status == 0:
            self.n["bc_incons"] += 1

    def on_consistency(self, idx, status, a):
        if idx == 1:
            self.n["shaving_alg"] += 1

    def on_shave(self, r):
        self.n["shave"] += 1
        self.n["shave_change" if r else "shave_nochange"] += 1

    def on_branch(self, dom_idx, events, a):
        self.n["choice"] += 1
        self.n["depth_branch"] = max(self.n["depth_branch"], int(a[4][0]))

    def on_backtrack(self, ok):
        if ok:
            self.n["backtrack"] += 1

    def on_cp_put(self):
        self.n["cp_put"] += 1


def compare(stats, n, delivered, cfg, exhaustive_enum):
    """Returns a list of (counter, reported, observed) mismatches."""
    bad = []

    def eq(label, observed):
        if stats[label] != observed:
            bad.append((label, stats[label], observed))

    eq("PROPAGATOR_FILTER_NB", n["filter"])
    eq("PROPAGATOR_ENTAILMENT_NB", n["entail"])
    eq("PROPAGATOR_INCONSISTENCY_NB", n["bc_incons"])
    if not (n["nochange"] <= stats["PROPAGATOR_FILTER_NO_CHANGE_NB"] <= n["nochange"] + n["bc_incons"]):
        bad.append(("PROPAGATOR_FILTER_NO_CHANGE_NB", stats["PROPAGATOR_FILTER_NO_CHANGE_NB"], n["nochange"]))
    eq("ALG_BC_NB", n["bc"])
    eq("ALG_BC_WITH_SHAVING_NB", n["shaving_alg"])
    eq("ALG_SHAVING_NB", n["shave"])
    eq("ALG_SHAVING_CHANGE_NB", n["shave_change"])
    eq("ALG_SHAVING_NO_CHANGE_NB", n["shave_nochange"])
    eq("SOLVER_CHOICE_NB", n["choice"])
    eq("SOLVER_BACKTRACK_NB", n["backtrack"])
    eq("SOLVER_SOLUTION_NB", delivered)
    if stats["SOLVER_CHOICE_DEPTH"] not in (n["depth_branch"], n["depth_any"]):
        bad.append(("SOLVER_CHOICE_DEPTH", stats["SOLVER_CHOICE_DEPTH"], n["depth_branch"]))
    if exhaustive_enum and cfg[0] == "bc":
        if stats["SOLVER_BACKTRACK_NB"] != n["cp_put"]:
            bad.append(("law:backtracks==choice-points-created", stats["SOLVER_BACKTRACK_NB"], n["cp_put"]))
        if stats["ALG_BC_NB"] != 1 + stats["SOLVER_CHOICE_NB"] + stats["SOLVER_BACKTRACK_NB"]:
            bad.append(("law:passes==1+choices+backtracks", stats["ALG_BC_NB"], 1 + stats["SOLVER_CHOICE_NB"] + stats["SOLVER_BACKTRACK_NB"]))
    return bad


def run_one(spec, cfg, mode, var, limit, stack=None):
    obs = Count()
    with S.interpose(obs):
        o = S.run(spec, cfg, mode, var, limit=limit, stack=stack)
    return o, obs


def check_spec(acc, spec, tier):
    fam = SC.family_of(spec)
    nv = len(spec["vars"])
    for cfg in S.configs_for(spec, tier, full=fam in ("F3", "F4", "F7")):
        runs = [("enumerate", None, None), ("enumerate", None, 1), ("enumerate", None, 2)]
        if fam != "F1" or tier == "thorough":
            runs += [("min", nv - 1, None), ("max", 0, None)]
        stacks = [None]
        if cfg[2] in ("mid", "min_cost") and U.n_assignments(spec) <= 300:
            stacks += [3, 4, 5, 7]  # exactly / almost full stacks (capacity guards of solve_one and of shaving)
        for (mode, var, limit), stack in [(r, st) for r in runs for st in stacks]:
            if stack is not None and (mode != "enumerate" or limit is not None):
                continue
            if mode != "enumerate" and U.n_assignments(spec) > 5000:
                continue
            o, obs = run_one(spec, cfg, mode, var, limit, stack)
            if stack is not None:
                acc.c["nt_tight_stack_runs"] += 1
            acc.c["runs"] += 1
            acc.c["propagator_executions"] += obs.n["filter"]
            if o.abort == "exc:RuntimeError" and stack is not None:
                # the solver refused to go on (stack full): the counters reported so far must still be exact
                delivered = len(o.solutions)
                bad = compare(o.stats, obs.n, delivered, cfg, False)
                acc.c["nt_refused_runs_checked"] += 1
                for label, rep, seen in bad[:2]:
                    acc.violation(f"{label}:{'shaving' if cfg[0] == 'shaving' else 'bc'}:stack-full",
                                  SC.witness(spec, cfg, mode=mode, var=var, limit=limit, stack=stack, reported=rep, observed=seen, stats=o.stats, counts=obs.n),
                                  "a reported statistic differs from the observed event count when the stack is (almost) full")
                continue
            if o.abort:
                acc.c["aborted_" + o.abort.split(":")[0]] += 1
                continue
            delivered = len(o.solutions) if mode == "enumerate" else o.stats["SOLVER_SOLUTION_NB"]
            if mode != "enumerate":
                # the number of incumbents is not visible from outside; every other counter is checked
                pass
            exhaustive = mode == "enumerate" and (limit is None or len(o.solutions) < limit)
            bad = compare(o.stats, obs.n, delivered, cfg, exhaustive)
            if obs.n["choice"] > 0:
                acc.c["nt_runs_with_choices"] += 1
            if cfg[0] == "shaving" and obs.n["shave"] > 0:
                acc.c["nt_runs_with_shaving"] += 1
            if limit is not None and not exhaustive:
                acc.c["nt_partial_enumerations"] += 1
            for label, rep, seen in bad[:2]:
                acc.violation(f"{label}:{'shaving' if cfg[0] == 'shaving' else 'bc'}:{mode if mode == 'enumerate' else 'optimise'}",
                              SC.witness(spec, cfg, mode=mode, var=var, limit=limit, stack=stack, reported=rep, observed=seen, stats=o.stats, counts=obs.n),
                              "a reported statistic differs from the observed event count / a conservation law fails")
            if not acc.samples and obs.n["choice"] > 2:
                acc.sample(SC.witness(spec, cfg, mode=mode, stats=o.stats, observed=obs.n), cap=1)


def unit(u):
    tier, specs = u
    acc = Acc()
    for spec in specs:
        acc.c["problems"] += 1
        check_spec(acc, spec, tier)
    return acc


def run(tier, seed):
    t0 = time.time()
    acc, nspecs = SC.run_units(unit, tier, seed)
    cov = {
        "states": acc.c["runs"],
        "transitions": acc.c["propagator_executions"],
        "traces_validated_against_impl": acc.c["runs"],
        "evaluations": acc.c["runs"] * 13,
        "distinct_nontrivial": acc.c["nt_runs_with_choices"],
        "rule": "state = one (problem of U, configuration, {exhaustion, stop after 1 / 2 solutions, minimise, maximise}) run with "
                "counting wrappers on every propagator, consistency algorithm, heuristic, backtrack, cp_put and shave_bound; each "
                "of the 13 statistics is compared with the observed count, plus the two conservation laws on exhaustive BC "
                "enumeration; non-trivial = run that made at least one branching decision",
        "runs_with_shaving_probes": acc.c["nt_runs_with_shaving"],
        "partial_enumerations": acc.c["nt_partial_enumerations"],
        "problems": nspecs,
        "exhaustive": True,
        "bounds": f"tier={tier}: universe U families F1-F4",
    }
    return finish(PROP, tier, seed, "model_checking", acc, cov,
                  ["documented meaning of the counters (docs/source/reference.rst, stats_logging.rst); an inconsistent execution "
                   "may or may not count as 'no change'; depth may or may not include shaving's scratch level",
                   "totals of the multiprocessing solver (sum / max over workers) are decided by C11"],
                  t0, vacuity={"nt_runs_with_choices": 1000, "nt_runs_with_shaving": 100, "nt_partial_enumerations": 100})


def replay(entry):
    rc = 0
    for w in entry["witnesses"]:
        for _ in range(2):
            o, obs = run_one(w["spec"], tuple(w["cfg"]), w["mode"], w["var"], w.get("limit"), w.get("stack"))
            delivered = len(o.solutions) if w["mode"] == "enumerate" else o.stats["SOLVER_SOLUTION_NB"]
            exhaustive = w["mode"] == "enumerate" and (w.get("limit") is None or len(o.solutions) < w["limit"])
            bad = compare(o.stats, obs.n, delivered, tuple(w["cfg"]), exhaustive)
            print("replay:", w["spec"], w["cfg"], "->", bad or "no violation")
            rc = rc or (1 if bad else 0)
    return rc
