"""C12 Splitting a problem partitions its search space (pure function enumeration + find_all of every part)."""
import copy
import itertools
import time
from collections import Counter

from mc import solvecheck as SC, solvemc as S, universe as U
from mc.runner import Acc, finish, pmap

PROP = "C12"


def problem_fields(p):
    return copy.deepcopy({k: v for k, v in vars(p).items()})


def same(a, b):
    import numpy as np

    if a.keys() != b.keys():
        return False
    for k in a:
        x, y = a[k], b[k]
        if isinstance(x, np.ndarray) or isinstance(y, np.ndarray):
            if not (isinstance(x, np.ndarray) and isinstance(y, np.ndarray) and np.array_equal(x, y)):
                return False
        elif x != y:
            return False
    return True


def cases(tier):
    th = tier == "thorough"
    out = []
    sizes = range(1, 7 if not th else 9)
    for a in (-3, -1, 0, 2):
        for size in sizes:
            dom = (a, a + size - 1)
            for k in range(1, size + 4):
                # variable first / last / shared domain with offsets; with and without constraints
                other = (0, 2)
                layouts = [
                    ("first", U.spec([dom, other], [(0, 0), (1, 0)], []), 0),
                    ("last", U.spec([other, dom], [(0, 0), (1, 0)], []), 1),
                    ("first+leq", U.spec([dom, other], [(0, 0), (1, 0)], [("affine_leq", [0, 1], (1, 1, a + 2))]), 0),
                    ("shared", U.spec([dom, other], [(0, 0), (0, 1), (1, 0)], [("affine_leq", [1, 2], (1, -1, a + 1))]), 0),
                    ("last+alldiff", U.spec([other, dom], [(0, 0), (1, 0)], [("alldifferent", [0, 1], ())]), 1),
                    ("middle+eq", U.spec([other, dom, other], [(0, 0), (1, 0), (2, 0)], [("affine_eq", [0, 1, 2], (1, 1, -1, 0))]), 1),
                ]
                # variable i does not use shared domain i (the docstring says "index of the variable", the code indexes the
                # shared domains): judged with an oracle that accepts either reading, see check_case
                third = (a + 1, a + 2)
                for idx in (0, 1, 2):
                    layouts.append((f"permuted{idx}", U.spec([dom, (-1, 0), third], [(1, 0), (2, 10), (0, 0)],
                                                              [("affine_leq", [0, 2], (1, -1, 1))]), idx))
                    layouts.append((f"rotated{idx}", U.spec([third, dom, (-1, 0)], [(2, 0), (0, -4), (1, 3)], []), idx))
                for name, spec, idx in layouts:
                    out.append((name, spec, idx, k))
    return out


def check_case(acc, name, spec, idx, k, tier, presolve=False):
    problem = S.build(spec)
    if presolve:
        # the original has already been given to a solver (and solved) before it is split
        from nucs.solvers.backtrack_solver import BacktrackSolver as _BS

        _BS(problem, log_level="ERROR").find_all()
        name = name + "+presolved"
    before = problem_fields(problem)
    try:
        parts = problem.split(k, idx)
    except Exception as e:  # noqa
        acc.violation(f"{name}:split-raises:{type(e).__name__}", {"spec": SC.short(spec), "k": k, "idx": idx, "error": str(e)[:200]})
        return
    acc.c["splits"] += 1
    w = {"spec": SC.short(spec), "k": k, "idx": idx}
    # which domain was split: shared domain idx (what the code does) or the domain of variable idx (what the docstring says);
    # either reading is accepted, but it must be one domain, the same in every part
    cands = {idx, spec["vars"][idx][0]} if idx < len(spec["vars"]) else {idx}
    changed = set()
    for part in parts:
        pd = part.__dict__["shr_domains_lst"]
        if len(pd) != len(before["shr_domains_lst"]):
            acc.violation(f"{name}:sub-problem-differs-elsewhere", dict(w), "a sub-problem has another number of domains")
            return
        changed |= {d for d in range(len(pd)) if list(pd[d]) != list(before["shr_domains_lst"][d])}
    if len(changed) > 1 or not changed <= cands:
        acc.violation(f"{name}:sub-problem-differs-elsewhere", dict(w, changed=sorted(changed)),
                      "the sub-problems differ from the original in a domain that is not the split variable's")
        return
    idx = changed.pop() if changed else idx
    if len(cands) > 1:
        acc.c["nt_splits_where_variable_and_domain_index_differ"] += 1
    lo, hi = spec["doms"][idx]
    size = hi - lo + 1
    if not same(before, problem_fields(problem)):
        acc.violation(f"{name}:original-modified", w, "split changed the original problem")
    doms = []
    for part in parts:
        f = problem_fields(part)
        doms.append(tuple(f["shr_domains_lst"][idx]))
        ref = copy.deepcopy(before)
        ref["shr_domains_lst"][idx] = list(doms[-1])
        if not same(ref, f):
            acc.violation(f"{name}:sub-problem-differs-elsewhere", dict(w, part=doms[-1]), "a sub-problem differs from the original outside the split domain")
        if any(part.__dict__[kk] is problem.__dict__[kk] for kk in ("shr_domains_lst", "dom_indices_lst", "dom_offsets_lst", "propagators")):
            acc.violation(f"{name}:sub-problem-aliases-original", dict(w), "a sub-problem shares a mutable list with the original")
    w["parts"] = doms
    if any(a > b for a, b in doms):
        acc.violation(f"{name}:empty-part", w, "a sub-problem has an empty domain")
        return
    covered = sorted(v for a, b in doms for v in range(a, b + 1))
    if covered != list(range(lo, hi + 1)):
        kind = "overlap" if len(set(covered)) < len(covered) else "not-a-cover"
        acc.violation(f"{name}:{kind}", w, "the parts are not a partition of the domain")
    if len(parts) != min(k, size) and len(parts) != k:
        acc.violation(f"{name}:wrong-number-of-parts", w)
    if k >= 2 and size >= 2:
        acc.c["nt_real_splits"] += 1
    sizes = [b - a + 1 for a, b in doms]
    if sizes and max(sizes) - min(sizes) > 1:
        acc.c["unbalanced_parts_observed"] += 1
    # every sub-problem is solved (under the C04 budget); disjoint union == find_all of the original
    cfg = ("bc", "first", "min", None)
    whole = S.run(spec, cfg)
    union = Counter()
    for part_dom in doms:
        sub = copy.deepcopy(spec)
        sub["doms"][idx] = list(part_dom)
        o = S.run(sub, cfg)
        acc.c["sub_runs"] += 1
        if o.abort == "skipped":
            acc.c["aborted_skipped"] += 1
            return
        if o.abort:
            acc.violation(f"{name}:sub-problem-not-solvable:{o.abort.split(':')[0]}", dict(w, error=o.abort_detail),
                          "a sub-problem could not be solved in finite time")
            return
        union.update(o.solutions)
    # also solve the real sub-problem objects (not only the specs rebuilt from their domains)
    from nucs.solvers.backtrack_solver import BacktrackSolver

    union2 = Counter()
    for part in parts:
        sols = BacktrackSolver(part, log_level="ERROR").find_all()
        union2.update(tuple(int(v) for v in x) for x in sols)
    ref = Counter(U.brute(spec))
    if union != ref or union2 != ref or Counter(whole.solutions) != ref:
        dup = any(v > 1 for v in union2.values())
        acc.violation(f"{name}:{'shared-solution' if dup else 'union-differs'}", dict(w, union=len(union2), expected=sum(ref.values())),
                      "the disjoint union of the sub-problems' solutions is not the original solution set")
    if not acc.samples and k >= 2 and size >= 3:
        acc.sample(dict(w, solutions=sum(ref.values())), cap=1)


def unit(u):
    tier, chunk = u
    acc = Acc()
    for name, spec, idx, k in chunk:
        check_case(acc, name, spec, idx, k, tier)
        check_case(acc, name, spec, idx, k, tier, presolve=True)
    return acc


def run(tier, seed):
    from mc.runner import chunks

    t0 = time.time()
    cs = cases(tier)
    acc = pmap(unit, [(tier, c) for c in chunks(cs, 40)], seed)
    cov = {
        "states": acc.c["splits"],
        "transitions": acc.c["splits"] + acc.c["sub_runs"],
        "traces_validated_against_impl": acc.c["splits"],
        "evaluations": acc.c["splits"],
        "distinct_nontrivial": acc.c["nt_real_splits"],
        "rule": "state = one (domain [a,b], k, variable position/sharing layout, constraints, original already solved or not) call of the real Problem.split; "
                "oracle = partition laws on the parts, deep comparison of original and sub-problems, find_all of every real "
                "sub-problem vs brute force; non-trivial = k >= 2 on a domain of >= 2 values",
        "exhaustive": True,
        "bounds": f"tier={tier}: a in {{-3,-1,0,2}}, size 1..{8 if tier == 'thorough' else 6}, k = 1..size+3, 12 layouts (6 where variable i does not use shared domain i)",
    }
    return finish(PROP, tier, seed, "model_checking", acc, cov,
                  ["var_idx is used by the code as a shared-domain index while the docstring calls it a variable index; where the two differ the oracle accepts a partition of either domain (one domain, the same in every part)"],
                  t0, vacuity={"nt_real_splits": 200})


def replay(entry):
    rc = 0
    for w in entry["witnesses"]:
        for _ in range(2):
            acc = Acc()
            check_case(acc, "replay", w["spec"], w["idx"], w["k"], "quick")
            check_case(acc, "replay", w["spec"], w["idx"], w["k"], "quick", presolve=True)
            print("replay:", w, "->", list(acc.viol) or "no violation")
            rc = rc or (1 if acc.viol else 0)
    return rc
