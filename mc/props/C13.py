"""C13 The solution set does not depend on how the model is written down (RewriteMC).

Every model of the universe U and the shipped models (converted to specs from the real Problem objects) x the finite set of
meaning-preserving rewrites: de-sharing (own domain per variable + linear equalities), constraint permutations, variable
permutations, posting each constraint twice, adding dummy / always-true constraints, translation of all values for
translation-covariant models.  Oracle: equality of solution sets after undoing the renaming / translation, equal optimum.
No brute force is involved: the relation is between two runs of the real solver."""
import copy
import itertools
import time
from collections import Counter

from mc import contracts as K, solvecheck as SC, solvemc as S, universe as U
from mc.runner import Acc, finish, pmap, chunks

PROP = "C13"


def spec_of_problem(problem, tag):
    """Spec of a real Problem object (shipped models)."""
    doms = [list(map(int, d)) for d in problem.shr_domains_lst]
    variables = [[int(d), int(o)] for d, o in zip(problem.dom_indices_lst, problem.dom_offsets_lst)]
    cons = []
    for vs, alg, params in problem.propagators:
        if int(alg) not in K.NAME_OF_ALG:
            return None
        cons.append([K.NAME_OF_ALG[int(alg)], [int(v) for v in vs], [int(p) for p in params]])
    return {"doms": doms, "vars": variables, "cons": cons, "tag": tag}


def shipped_specs(tier):
    from nucs.examples.magic_sequence.magic_sequence_problem import MagicSequenceProblem
    from nucs.examples.magic_square.magic_square_problem import MagicSquareProblem
    from nucs.examples.queens.queens_problem import QueensProblem
    from nucs.examples.quasigroup.quasigroup_problem import QuasigroupProblem
    from nucs.examples.schur_lemma.schur_lemma_problem import SchurLemmaProblem
    from nucs.problems.circuit_problem import CircuitProblem
    from nucs.problems.latin_square_problem import LatinSquareProblem, LatinSquareRCProblem

    th = tier == "thorough"
    out = []
    for n in (4, 5) + ((6,) if th else ()):
        out.append(spec_of_problem(QueensProblem(n), f"shipped:queens{n}"))
    for n in (4, 5) + ((7,) if th else ()):
        out.append(spec_of_problem(MagicSequenceProblem(n), f"shipped:magic_sequence{n}"))
    out.append(spec_of_problem(MagicSquareProblem(3, True), "shipped:magic_square3"))
    for n in (3,) + ((4,) if th else ()):
        out.append(spec_of_problem(LatinSquareProblem(list(range(n))), f"shipped:latin{n}"))
    out.append(spec_of_problem(LatinSquareRCProblem(3), "shipped:latin_rc3"))
    for n in (4, 5) + ((6,) if th else ()):
        out.append(spec_of_problem(CircuitProblem(n), f"shipped:circuit{n}"))
    for n in (5, 6) + ((8,) if th else ()):
        out.append(spec_of_problem(SchurLemmaProblem(n, True), f"shipped:schur{n}"))
    if th:
        out.append(spec_of_problem(QuasigroupProblem(5, True), "shipped:quasigroup5"))
    return [s for s in out if s is not None]


# ---- rewrites: each returns (name, spec', back) with back(solution') -> solution of the original --------------------


def r_deshare(spec):
    groups = {}
    for j, (d, off) in enumerate(spec["vars"]):
        groups.setdefault(d, []).append(j)
    if all(len(g) == 1 for g in groups.values()) and len(groups) == len(spec["doms"]):
        return None
    s = copy.deepcopy(spec)
    s["doms"], s["vars"] = [], []
    for j, (d, off) in enumerate(spec["vars"]):
        lo, hi = spec["doms"][d]
        s["doms"].append([lo + off, hi + off])
        s["vars"].append([j, 0])
    nv = len(spec["vars"])
    extra_doms = []
    for d, g in groups.items():
        j0 = g[0]
        for j in g[1:]:
            diff = spec["vars"][j][1] - spec["vars"][j0][1]
            s["cons"].append(["affine_eq", [j, j0], [1, -1, diff]])
    # shared domains used by no variable keep a variable of their own so that the number of solutions is unchanged
    unused = [d for d in range(len(spec["doms"])) if d not in groups]
    for d in unused:
        s["doms"].append(list(spec["doms"][d]))
        s["vars"].append([len(s["doms"]) - 1, 0])
    s.pop("decision", None)
    s.pop("costs", None)
    return "de-share", s, (lambda x, _nv=nv: tuple(x[:_nv]))


def r_api(spec, api):
    """The same model declared through Problem.add_variable / add_variables: every variable gets a domain slot of its own,
    a variable that is a view of an earlier shared domain points to it (explicit dom_index / dom_offset) and its own slot is a
    singleton placeholder."""
    used = {d for d, _ in spec["vars"]}
    if len(used) != len(spec["doms"]) or "decision" in spec:
        return None
    first = {}
    doms, variables = [], []
    for j, (d, off) in enumerate(spec["vars"]):
        if d not in first:
            first[d] = j
            doms.append(list(spec["doms"][d]))
        else:
            doms.append([spec["doms"][d][0], spec["doms"][d][0]])
        variables.append([first[d], off])
    s = copy.deepcopy(spec)
    s["doms"], s["vars"], s["api"] = doms, variables, api
    s.pop("costs", None)
    return f"api:{api}", s, lambda x: tuple(x)


def r_extend(spec, api):
    """The model plus one auxiliary variable pinned to 0 (aux <= 0 over [0, 1]), the auxiliary variable being added with
    Problem.add_variable / add_variables to a problem built by the constructor (views included); the constraint on it uses the
    index the call returned."""
    if "decision" in spec or "costs" in spec or spec.get("api"):
        return None
    s = copy.deepcopy(spec)
    s["doms"] = [list(d) for d in spec["doms"]] + [[0, 1]]
    s["vars"] = [list(v) for v in spec["vars"]] + [[len(spec["doms"]), 0]]
    s["cons"] = [list(c) for c in spec["cons"]] + [["affine_leq", [len(spec["vars"])], [1, 0]]]
    s["api"] = api
    return f"api:{api}", s, lambda x: tuple(x[:-1])


def r_permute_constraints(spec, tier):
    k = len(spec["cons"])
    if k < 2:
        return []
    if k <= 4:
        perms = list(itertools.permutations(range(k)))[1:]
        if tier == "quick":
            perms = perms[:: max(1, len(perms) // 5)]
    else:
        perms = [tuple(reversed(range(k))), tuple(range(1, k)) + (0,), tuple(range(k // 2, k)) + tuple(range(k // 2)),
                 tuple(range(0, k, 2)) + tuple(range(1, k, 2))]
    out = []
    for p in perms:
        s = copy.deepcopy(spec)
        s["cons"] = [spec["cons"][i] for i in p]
        out.append((f"constraints{list(p) if k <= 4 else p[:3]}", s, lambda x: tuple(x)))
    return out


def r_permute_variables(spec, tier):
    nv, nd = len(spec["vars"]), len(spec["doms"])
    if nv < 2 or "decision" in spec:
        return []
    perms = list(itertools.permutations(range(nv)))[1:] if nv <= 4 else [tuple(reversed(range(nv))), tuple(range(1, nv)) + (0,)]
    if tier == "quick" and len(perms) > 6:
        perms = perms[:: len(perms) // 6]
    out = []
    for p in perms:  # variable i becomes variable p[i]; domains are reversed as well
        s = copy.deepcopy(spec)
        dmap = {d: nd - 1 - d for d in range(nd)}
        s["doms"] = [spec["doms"][nd - 1 - d] for d in range(nd)]
        s["vars"] = [None] * nv
        for i, (d, off) in enumerate(spec["vars"]):
            s["vars"][p[i]] = [dmap[d], off]
        s["cons"] = [[t, [p[v] for v in vs], list(params)] for t, vs, params in spec["cons"]]
        out.append((f"variables{list(p) if nv <= 4 else 'rev/rot'}", s, (lambda x, _p=p: tuple(x[_p[i]] for i in range(len(_p))))))
    return out


def r_duplicate(spec):
    if not spec["cons"]:
        return None
    s = copy.deepcopy(spec)
    s["cons"] = [c for c in spec["cons"] for _ in (0, 1)]
    return "each-constraint-twice", s, lambda x: tuple(x)


def r_redundant(spec):
    s = copy.deepcopy(spec)
    nv = len(spec["vars"])
    lo = U.var_range(spec, 0)[0]
    s["cons"] = [["dummy", list(range(min(nv, 2))), []]] + s["cons"] + [["affine_geq", [0], [1, lo]], ["affine_leq", list(range(min(nv, 2))), [0] * min(nv, 2) + [0]]]
    return "add-always-true", s, lambda x: tuple(x)


def translate_params(typ, n, params, t):
    if typ in ("alldifferent", "lexicographic_leq", "max_eq", "min_eq", "max_leq", "min_geq", "dummy"):
        return list(params)
    if typ.startswith("affine"):
        return list(params[:-1]) + [params[-1] + t * sum(params[:-1])]
    if typ == "exactly_eq":
        return [params[0] + t, params[1]]
    if typ == "relation":
        return [p + t for p in params]
    if typ == "gcc":
        return [params[0] + t] + list(params[1:])
    return None


def r_translate(spec, t):
    if "decision" in spec:
        return None
    cons = []
    for typ, vs, params in spec["cons"]:
        p = translate_params(typ, len(vs), params, t)
        if p is None:
            return None
        cons.append([typ, list(vs), p])
    s = copy.deepcopy(spec)
    s["doms"] = [[lo + t, hi + t] for lo, hi in spec["doms"]]
    s["cons"] = cons
    return f"translate{t:+d}", s, (lambda x, _t=t: tuple(v - _t for v in x))


def rewrites(spec, tier):
    out = []
    for r in (r_deshare(spec), r_duplicate(spec), r_redundant(spec), r_translate(spec, -3), r_translate(spec, 5),
              r_api(spec, "add_variable"), r_api(spec, "add_variables"), r_extend(spec, "extend"), r_extend(spec, "extends")):
        if r:
            out.append(r)
    out += r_permute_constraints(spec, tier)
    out += r_permute_variables(spec, tier)
    return out


def check_spec(acc, spec, tier):
    cfgs = [("bc", "first", "min", None), ("bc", "smallest", "max", None), ("shaving", "greatest", "mid", None)]
    if tier == "thorough":
        cfgs += [("bc", "greatest", "split_low", None), ("shaving", "first", "min", None)]
    big = U.n_assignments(spec) > 3000
    if big:
        cfgs = cfgs[:1]
    nv = len(spec["vars"])
    base = {}
    for cfg in cfgs:
        o = S.run(spec, cfg, max_solutions=200000)
        if o.abort:
            acc.c["aborted_base"] += 1
            return
        base[cfg] = Counter(o.solutions)
    opt = {}
    for mode, var in (("min", nv - 1), ("max", 0)):
        r = S.run(spec, cfgs[0], mode, var)
        opt[(mode, var)] = None if (r.abort or r.result is None) else r.result[var]
    for name, s2, back in rewrites(spec, tier):
        acc.c["rewrites"] += 1
        acc.add("rewrite_kinds", name.split("[")[0].split("(")[0].rstrip("+-0123456789"))
        for cfg in cfgs:
            o = S.run(s2, cfg, max_solutions=200000)
            acc.c["runs"] += 1
            acc.c["propagator_executions"] += o.stats.get("PROPAGATOR_FILTER_NB", 0)
            fam = spec["tag"].split(":")[0]
            kind = name.split("[")[0].split("(")[0]
            if o.abort == "skipped":
                acc.c["aborted_skipped"] += 1
                break
            if o.abort:
                acc.violation(f"{fam}:{SC.con_types(spec)}:{kind}:rewritten-model-aborts:{o.abort.split(':')[0]}",
                              SC.witness(spec, cfg, rewrite=name, rewritten=SC.short(s2), error=o.abort_detail),
                              "the rewritten model cannot be solved although the original can")
                break
            got = Counter(back(x) for x in o.solutions)
            if base[cfg]:
                acc.c["nt_rewrites_of_satisfiable_models"] += 1
            if got != base[cfg]:
                acc.violation(f"{fam}:{SC.con_types(spec)}:{kind}:solution-set-differs",
                              SC.witness(spec, cfg, rewrite=name, rewritten=SC.short(s2), original=sum(base[cfg].values()), rewritten_count=sum(got.values()),
                                         example=[list(k) for k in list((set(got) ^ set(base[cfg])))[:3]]),
                              "a meaning-preserving rewrite changed the set of solutions")
                break
        # optimum (objective variable mapped through the rewrite by optimising the corresponding rewritten variable)
        if not big and name in ("de-share", "each-constraint-twice", "add-always-true", "api:add_variable", "api:add_variables", "api:extend", "api:extends") or name.startswith("constraints"):
            for (mode, var), val in opt.items():
                r = S.run(s2, cfgs[0], mode, var)
                got = None if (r.abort or r.result is None) else back(r.result)[var]
                if got != val:
                    acc.violation(f"{spec['tag'].split(':')[0]}:{SC.con_types(spec)}:{name.split('[')[0]}:optimum-differs",
                                  SC.witness(spec, cfgs[0], rewrite=name, mode=mode, var=var, original=val, rewritten_value=got))
    if not acc.samples:
        acc.sample({"spec": SC.short(spec), "rewrites": [r[0] for r in rewrites(spec, tier)][:8]}, cap=1)


def unit(u):
    tier, specs = u
    acc = Acc()
    for spec in specs:
        acc.c["problems"] += 1
        check_spec(acc, spec, tier)
    return acc


def select(tier):
    specs = U.universe(tier if tier == "quick" else "quick", ("F1", "F2", "F3", "F4", "F5", "F7"))
    f1 = [s for s in specs if s["tag"].startswith("F1")]
    f2 = [s for s in specs if s["tag"].startswith("F2")]
    rest = [s for s in specs if s["tag"][:2] in ("F3", "F4") and U.n_assignments(s) <= 20000]
    step1, step2 = (12, 6) if tier == "quick" else (2, 1)
    # every sharing layout is kept (they are what de-sharing is about)
    shared = [s for s in f1 if not s["tag"].endswith(":own") and not s["tag"].endswith(":box")]
    own = [s for s in f1 if s["tag"].endswith(":own")]
    return shared[:: max(1, step1 // 4)] + own[::step1] + f2[::step2] + rest + shipped_specs(tier)


def run(tier, seed):
    t0 = time.time()
    specs = select(tier)
    specs.sort(key=lambda s: -U.n_assignments(s))
    heavy = [s for s in specs if U.n_assignments(s) > 3000]
    light = [s for s in specs if U.n_assignments(s) <= 3000]
    units = [(tier, [s]) for s in heavy] + [(tier, c) for c in chunks(light, 25)]
    acc = pmap(unit, units, None)
    cov = {
        "states": acc.c["runs"],
        "transitions": acc.c["propagator_executions"],
        "traces_validated_against_impl": acc.c["runs"],
        "evaluations": acc.c["rewrites"],
        "distinct_nontrivial": acc.c["nt_rewrites_of_satisfiable_models"],
        "rule": "case = (model, meaning-preserving rewrite, configuration): the real solver enumerates both models completely and "
                "the solution sets are compared after undoing the renaming / translation (optimum too); non-trivial = rewrite of a "
                "satisfiable model",
        "models": len(specs), "exhaustive": True,
        "bounds": f"tier={tier}: slice of U (all sharing layouts) + shipped models (queens, magic sequence, magic square, latin "
                  "squares, circuit, Schur) converted from the real Problem objects; rewrites: de-share, all constraint permutations "
                  "(<= 4) / reversal+rotations, variable permutations, duplicate, add always-true, translate -3/+5",
    }
    return finish(PROP, tier, seed, "exploration", acc, cov,
                  ["a finite grid of (model, rewrite) pairs is enumerated completely; no claim beyond it",
                   "translation is applied only to models whose constraint types are translation-covariant (parameters adjusted)"],
                  t0, vacuity={"nt_rewrites_of_satisfiable_models": 1000})


def replay(entry):
    rc = 0
    for w in entry["witnesses"]:
        for _ in range(2):
            acc = Acc()
            check_spec(acc, w["spec"], "quick")
            print("replay:", w["spec"], w.get("rewrite"), "->", list(acc.viol) or "no violation")
            rc = rc or (1 if acc.viol else 0)
    return rc
