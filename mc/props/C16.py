"""C16 No in-contract input makes the engine read or write outside its arrays.
(a) PropMC, interpreted: every filtering call of the contract table - any IndexError is the violation;
(b) SolveMC, interpreted: every problem of U x configurations x {enumerate, minimise} with a stack deeper than the search;
(c) compiled mode with NUMBA_BOUNDSCHECK=1 (sub-processes, private cache): every propagator called directly on the contract
    table, whole solves of a universe slice with fd 2 captured."""
import json
import time

from mc import propmc, solvecheck as SC, solvemc as S, subproc, universe as U
from mc.runner import Acc, HarnessError, finish

PROP = "C16"


def layout(spec):
    return spec["tag"].split(":")[-1] if SC.family_of(spec) == "F1" else spec["tag"].replace(":", "/")


def check_spec(acc, spec, tier):
    nv = len(spec["vars"])
    for cfg in S.configs_for(spec, tier, full=SC.family_of(spec) in ("F3", "F4", "F7")):
        for mode, var in (("enumerate", None), ("min", nv - 1)):
            if mode != "enumerate" and (U.n_assignments(spec) > 5000 or SC.family_of(spec) == "F1"):
                continue
            o = S.run(spec, cfg, mode, var)
            acc.c["runs"] += 1
            acc.c["propagator_executions"] += o.stats.get("PROPAGATOR_FILTER_NB", 0)
            if o.stats.get("SOLVER_CHOICE_NB", 0):
                acc.c["nt_runs_with_search"] += 1
            if o.abort == "index":
                acc.violation(f"engine:{SC.con_types(spec)}:{layout(spec)}:index-error", SC.witness(spec, cfg, mode=mode, var=var, error=o.abort_detail),
                              "IndexError during a solver run (interpreted mode): an array is indexed outside its bounds")
            elif o.abort:
                acc.c["aborted_" + o.abort.split(":")[0]] += 1


def unit(u):
    tier, specs = u
    acc = Acc()
    for spec in specs:
        acc.c["problems"] += 1
        check_spec(acc, spec, tier)
    return acc


def compiled_part(acc, tier):
    env_extra = {"NUMBA_BOUNDSCHECK": "1"}
    nsh = 8
    procs = [subproc.popen_module("mc.boundsworker", [tier, sh, nsh], True, env_extra, tag="-boundscheck") for sh in range(nsh)]
    import subprocess

    deadline = time.time() + 900
    for p in procs:
        try:
            out, err = p.communicate(timeout=max(1, deadline - time.time()))
        except subprocess.TimeoutExpired:
            # compiled code cannot be interrupted from inside: a search that never ends on a broken tree is cut here
            for q in procs:
                if q.poll() is None:
                    q.kill()
            p.communicate()
            acc.caps.append("a compiled bounds-checked worker did not finish within 900 s and was killed")
            continue
        if p.returncode != 0:
            if p.returncode < 0:
                acc.caps.append(f"a compiled bounds-checked worker was killed (signal {-p.returncode})")
                continue
            raise HarnessError("boundsworker failed: " + err[-1500:])
        o = json.loads(out.strip().splitlines()[-1])
        acc.c["compiled_boundschecked_calls"] += o["calls"]
        acc.c["compiled_boundschecked_solves"] += o["solves"]
        for w in o["index_errors"]:
            acc.violation(f"compiled:{w['type']}:{propmc.subkey(w['type'], w['n'], w['params'], [tuple(b) for b in w['box']])}:bounds-check-failure", w,
                          "NUMBA_BOUNDSCHECK=1: a compiled propagator indexes an array outside its bounds")
        for w in o["stderr_hits"]:
            acc.violation(f"compiled:engine:{SC.con_types(w['spec'])}:bounds-check-failure-on-stderr", w,
                          "NUMBA_BOUNDSCHECK=1: a bounds failure inside the compiled engine (printed as 'Exception ignored')")
        for name, cnt in o["other_errors"].items():
            acc.c["compiled_other_exceptions_" + name] += cnt


def run(tier, seed):
    t0 = time.time()
    acc = propmc.run(PROP, tier, seed)
    eng, nspecs = SC.run_units(unit, tier, seed)
    acc.merge(eng)
    compiled_part(acc, tier)
    calls = acc.c["calls"]
    cov = {
        "states": calls + acc.c["runs"] + acc.c["compiled_boundschecked_calls"] + acc.c["compiled_boundschecked_solves"],
        "transitions": calls + acc.c["propagator_executions"] + acc.c["compiled_boundschecked_calls"],
        "traces_validated_against_impl": calls + acc.c["runs"],
        "evaluations": calls + acc.c["runs"] + acc.c["compiled_boundschecked_calls"] + acc.c["compiled_boundschecked_solves"],
        "distinct_nontrivial": acc.c["nt_any"] + acc.c["nt_runs_with_search"],
        "rule": "(a) every (type, arity, params, box): one interpreted call, IndexError = violation; (b) every (problem of U, "
                "configuration, mode) interpreted run; (c) the same table called through the compiled dispatchers under "
                "NUMBA_BOUNDSCHECK=1 and compiled solves of a universe slice with stderr captured; negative indices are not "
                "out of bounds (numpy and numba define them as wrap-around); non-trivial = call that pruned/failed/entailed, run "
                "with at least one branching decision",
        "interpreted_calls": calls, "interpreted_runs": acc.c["runs"], "compiled_calls": acc.c["compiled_boundschecked_calls"],
        "compiled_solves": acc.c["compiled_boundschecked_solves"], "problems": nspecs, "exhaustive": True,
        "bounds": f"tier={tier}: contract table and universe U; compiled part on {'every third instance' if tier == 'quick' else 'every instance'} "
                  "of the table and the C15 slice of U; stack height above the needed depth (capacity is C19's subject)",
    }
    return finish(PROP, tier, seed, "model_checking", acc, cov,
                  ["gcc parameter vectors with an upper capacity 0 are skipped in compiled mode (known finding C04 gcc:ucap0:spin)"],
                  t0, vacuity={"nt_runs_with_search": 1000, "compiled_boundschecked_calls": 100000, "compiled_boundschecked_solves": 500})


def replay(entry):
    rc = 0
    for w in entry["witnesses"]:
        for _ in range(2):
            if "type" in w:
                st, out, exc = propmc.safe_call(w["type"], tuple(tuple(b) for b in w["box"]), tuple(w["params"]))
                print("replay:", w["type"], w["params"], w["box"], "->", st, out, exc)
                rc = rc or (1 if exc == "index" else 0)
            elif "cfg" in w and "mode" in w:
                o = S.run(w["spec"], tuple(w["cfg"]), w["mode"], w["var"])
                print("replay:", w["spec"], w["cfg"], "->", o.abort, o.abort_detail)
                rc = rc or (1 if o.abort == "index" else 0)
    return rc
