"""C01 Every reported solution satisfies every posted constraint (SolveMC over the universe x configurations)."""
import time

from mc import solvecheck as SC, solvemc as S, universe as U
from mc.runner import Acc, finish

PROP = "C01"


def check_spec(acc, spec, tier):
    nv = len(spec["vars"])
    for cfg in S.configs_for(spec, tier, full=SC.family_of(spec) in ("F3", "F4", "F7")):
        modes = [("enumerate", None)]
        if tier == "thorough" or SC.family_of(spec) != "F1" or cfg[:3] == ("bc", "first", "min"):
            objs = range(nv) if nv <= 4 else (0, nv - 1)
            modes += [(m, v) for v in objs for m in ("min", "max")]
        for mode, var in modes:
            if mode != "enumerate" and U.n_assignments(spec) > 5000:
                continue
            o = S.run(spec, cfg, mode, var)
            acc.c["runs"] += 1
            acc.c["propagator_executions"] += o.stats.get("PROPAGATOR_FILTER_NB", 0)
            if o.abort:
                acc.c["aborted_" + o.abort.split(":")[0]] += 1
            vectors = o.solutions if mode == "enumerate" else ([o.result] if o.result is not None else [])
            for x in vectors:
                acc.c["vectors_checked"] += 1
                why = SC.sol_ok(spec, x)
                if why:
                    layout = spec["tag"].split(":")[-1] if SC.family_of(spec) == "F1" else SC.family_of(spec)
                    acc.violation(f"{mode if mode == 'enumerate' else 'optimise'}:{SC.con_types(spec)}:{layout}:{why}",
                                  SC.witness(spec, cfg, mode=mode, var=var, vector=list(x)),
                                  "a vector handed to the caller violates a domain, an offset or a posted relation")
            if vectors:
                acc.c["nt_runs_with_vectors"] += 1
                acc.add("types_with_solutions", SC.con_types(spec))
            if not acc.samples and vectors:
                acc.sample(SC.witness(spec, cfg, mode=mode, var=var, vectors=[list(v) for v in vectors[:3]]), cap=1)


def unit(u):
    tier, specs = u
    acc = Acc()
    for spec in specs:
        acc.c["problems"] += 1
        check_spec(acc, spec, tier)
    return acc


def run(tier, seed):
    t0 = time.time()
    acc, nspecs = SC.run_units(unit, tier, seed)
    cov = {
        "states": acc.c["runs"],
        "transitions": acc.c["propagator_executions"],
        "traces_validated_against_impl": acc.c["runs"],
        "evaluations": acc.c["vectors_checked"],
        "distinct_nontrivial": acc.c["nt_runs_with_vectors"],
        "rule": "state = one (problem of U, configuration, mode) run of the real solver through the public API; transitions = "
                "real propagator executions in those runs; evaluations = vectors handed to the caller, each checked against "
                "domains, offsets and every posted relation predicate; non-trivial = run that produced at least one vector",
        "problems": nspecs,
        "exhaustive": True,
        "bounds": f"tier={tier}: universe U (DESIGN 2.8) families F1-F4; {'40' if tier == 'thorough' else '8 (40 on F3/F4)'} "
                  "configurations; enumerate + minimise/maximise of every variable",
    }
    return finish(PROP, tier, seed, "model_checking", acc, cov,
                  ["relation predicates of mc/contracts.py", "runs aborted by a budget / IndexError are judged by C04 / C16; "
                   "the vectors they delivered before aborting are still checked here",
                   "the multiprocessing solver is covered by C11 (every merge yields exactly the workers' vectors)"],
                  t0, vacuity={"nt_runs_with_vectors": 1000})


def replay(entry):
    rc = 0
    for w in entry["witnesses"]:
        for _ in range(2):
            acc = Acc()
            o = S.run(w["spec"], tuple(w["cfg"]), w["mode"], w["var"])
            vectors = o.solutions if w["mode"] == "enumerate" else ([o.result] if o.result is not None else [])
            bad = [(x, SC.sol_ok(w["spec"], x)) for x in vectors if SC.sol_ok(w["spec"], x)]
            print("replay:", w["spec"], w["cfg"], w["mode"], w["var"], "->", bad or "no violation", o.abort)
            if bad:
                rc = 1
    return rc
