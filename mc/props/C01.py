"""C01 Every reported solution satisfies every posted constraint (SolveMC over the universe x configurations)."""
import time

from mc import solvecheck as SC, solvemc as S, universe as U
from mc.runner import Acc, finish

PROP = "C01"


def check_spec(acc, spec, tier):
    nv = len(spec["vars"])
    for cfg in S.configs_for(spec, tier, full=SC.family_of(spec) in ("F3", "F4", "F7")):
        modes = [("enumerate", None)]
        if tier == "thorough" or SC.family_of(spec) != "F1" or cfg[:3] == ("bc", "first", "min"):
            objs = range(nv) if nv <= 4 else (0, nv - 1)
            modes += [(m, v) for v in objs for m in ("min", "max")]
        for mode, var in modes:
            if mode != "enumerate" and U.n_assignments(spec) > 5000:
                continue
            o = S.run(spec, cfg, mode, var)
            acc.c["runs"] += 1
            acc.c["propagator_executions"] += o.stats.get("PROPAGATOR_FILTER_NB", 0)
            if o.abort:
                acc.c["aborted_" + o.abort.split(":")[0]] += 1
            vectors = o.solutions if mode == "enumerate" else ([o.result] if o.result is not None else [])
            for x in vectors:
                acc.c["vectors_checked"] += 1
                why = SC.sol_ok(spec, x)
                if why:
                    layout = spec["tag"].split(":")[-1] if SC.family_of(spec) == "F1" else SC.family_of(spec)
                    acc.violation(f"{mode if mode == 'enumerate' else 'optimise'}:{SC.con_types(spec)}:{layout}:{why}",
                                  SC.witness(spec, cfg, mode=mode, var=var, vector=list(x)),
                                  "a vector handed to the caller violates a domain, an offset or a posted relation")
            if vectors:
                acc.c["nt_runs_with_vectors"] += 1
                acc.add("types_with_solutions", SC.con_types(spec))
            if not acc.samples and vectors:
                acc.sample(SC.witness(spec, cfg, mode=mode, var=var, vectors=[list(v) for v in vectors[:3]]), cap=1)


def unit(u):
    tier, specs = u
    acc = Acc()
    for spec in specs:
        acc.c["problems"] += 1
        check_spec(acc, spec, tier)
    return acc


def mp_unit(u):
    """The multiprocessing solver over the real sub-problem objects of Problem.split(k, idx): every vector it hands to the
    caller (enumeration, minimise, maximise) is checked against the *original* problem (domains, offsets, relations).
    One canonical arrival order per case; every merge is C11's subject."""
    from mc import schedmc as M

    tier, specs = u
    acc = Acc()
    cfg = ("bc", "first", "min", None)
    for spec in specs:
        nv = len(spec["vars"])
        for idx in range(min(len(spec["doms"]), nv)):
            for k in (1, 2, 3):
                problem = S.build(spec)
                try:
                    parts = problem.split(k, idx)
                except Exception as e:  # noqa
                    acc.c["mp_split_raised(reported by C12)"] += 1
                    continue
                solvers = [S.make_solver(p, spec, cfg) for p in parts]
                for mode, var in [("solve", None)] + [(m, v) for v in sorted({0, nv - 1}) for m in ("min", "max")]:
                    res = M.run_parent(solvers, mode, var, {}, [], [], "eager")
                    acc.c["runs"] += 1
                    acc.c["mp_runs"] += 1
                    vectors = res.yielded if mode == "solve" else ([res.value] if res.value is not None else [])
                    for x in vectors:
                        acc.c["vectors_checked"] += 1
                        why = SC.sol_ok(spec, x)
                        if why:
                            acc.violation(f"multiprocessing:{'enumerate' if mode == 'solve' else 'optimise'}:{SC.con_types(spec)}:{why}",
                                          dict(SC.witness(spec, cfg, mode=mode, var=var, vector=list(x)), split=[k, idx]),
                                          "a vector handed to the caller by the multiprocessing solver violates a domain, an offset or a posted relation")
                    if vectors:
                        acc.c["nt_runs_with_vectors"] += 1
    return acc


def run(tier, seed):
    from mc import mpcases
    from mc.runner import chunks, pmap

    t0 = time.time()
    acc, nspecs = SC.run_units(unit, tier, seed)
    mp_specs = [s for s in mpcases.mp_specs(tier) if len(U.brute(s)) <= 40]
    acc.merge(pmap(mp_unit, [(tier, c) for c in chunks(mp_specs, 6)], seed))
    cov = {
        "states": acc.c["runs"],
        "transitions": acc.c["propagator_executions"],
        "traces_validated_against_impl": acc.c["runs"],
        "evaluations": acc.c["vectors_checked"],
        "distinct_nontrivial": acc.c["nt_runs_with_vectors"],
        "rule": "state = one (problem of U, configuration, mode) run of the real solver through the public API; transitions = "
                "real propagator executions in those runs; evaluations = vectors handed to the caller, each checked against "
                "domains, offsets and every posted relation predicate; non-trivial = run that produced at least one vector",
        "problems": nspecs,
        "exhaustive": True,
        "bounds": f"tier={tier}: universe U (DESIGN 2.8) families F1-F4; {'40' if tier == 'thorough' else '8 (40 on F3/F4)'} "
                  "configurations; enumerate + minimise/maximise of every variable",
    }
    return finish(PROP, tier, seed, "model_checking", acc, cov,
                  ["relation predicates of mc/contracts.py", "runs aborted by a budget / IndexError are judged by C04 / C16; "
                   "the vectors they delivered before aborting are still checked here",
                   "the multiprocessing solver: every vector delivered over the real sub-problems of Problem.split(k, idx), k = 1..3, "
                   "every idx, one canonical arrival order (every merge: C11, which shows that the vectors do not depend on the order)"],
                  t0, vacuity={"nt_runs_with_vectors": 1000})


def replay(entry):
    rc = 0
    for w in entry["witnesses"]:
        for _ in range(2):
            acc = Acc()
            o = S.run(w["spec"], tuple(w["cfg"]), w["mode"], w["var"])
            vectors = o.solutions if w["mode"] == "enumerate" else ([o.result] if o.result is not None else [])
            bad = [(x, SC.sol_ok(w["spec"], x)) for x in vectors if SC.sol_ok(w["spec"], x)]
            print("replay:", w["spec"], w["cfg"], w["mode"], w["var"], "->", bad or "no violation", o.abort)
            if bad:
                rc = 1
    return rc
