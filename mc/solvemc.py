"""
SolveMC (DESIGN 2.5): every problem of the universe through the public API, under interposition.

The engine's run on one (problem, configuration) is deterministic, so one monitored execution is its whole
behaviour.  Interposition rebinds module globals / registry entries of the *real* code (interpreted mode):
every propagator execution, consistency pass, heuristic call and backtrack is observed.
"""
import contextlib
from typing import Dict, List, Optional

import numpy as np

from mc import budget, contracts as K, universe as U
from nucs.heuristics import heuristics as H
from nucs.problems.problem import Problem
from nucs.propagators import propagators as P
from nucs.solvers import backtrack_solver as BS
from nucs.solvers import bound_consistency_algorithm as BCA
from nucs.solvers import choice_points as CP
from nucs.solvers import consistency_algorithms as CA
from nucs.solvers import shaving_consistency_algorithm as SCA
from nucs.solvers.backtrack_solver import BacktrackSolver

CONS = {"bc": CA.CONSISTENCY_ALG_BC, "shaving": CA.CONSISTENCY_ALG_SHAVING}
VARH = {"first": H.VAR_HEURISTIC_FIRST_NOT_INSTANTIATED, "smallest": H.VAR_HEURISTIC_SMALLEST_DOMAIN,
        "greatest": H.VAR_HEURISTIC_GREATEST_DOMAIN, "max_regret": H.VAR_HEURISTIC_MAX_REGRET}
DOMH = {"min": H.DOM_HEURISTIC_MIN_VALUE, "max": H.DOM_HEURISTIC_MAX_VALUE, "split_low": H.DOM_HEURISTIC_SPLIT_LOW,
        "mid": H.DOM_HEURISTIC_MID_VALUE, "min_cost": H.DOM_HEURISTIC_MIN_COST}

ALL_CONFIGS = [(c, v, d) for c in CONS for v in VARH for d in DOMH]
QUICK_CONFIGS = [("bc", "first", "min"), ("bc", "smallest", "max"), ("bc", "greatest", "split_low"), ("bc", "first", "mid"),
                 ("shaving", "first", "min"), ("shaving", "greatest", "mid"), ("bc", "max_regret", "min_cost"),
                 ("shaving", "smallest", "split_low")]
COST_TABLES = ["ones", "ramp", "zigzag"]


def needs_costs(cfg) -> bool:
    return cfg[1] == "max_regret" or cfg[2] == "min_cost"


def cost_table(spec, kind: str):
    """Cost tables within the contract of DESIGN 2.7: one row per shared domain, indexed by value, entries >= 0,
    no two adjacent zeros inside an initial domain; ties between positive entries are in contract."""
    width = max(hi for lo, hi in spec["doms"]) + 1
    rows = []
    for d, (lo, hi) in enumerate(spec["doms"]):
        if kind == "ones":
            row = [1] * width
        elif kind == "ramp":
            row = [((v + d) % width) + 1 for v in range(width)]
        elif kind == "zigzag":
            row = [0 if (v + d) % 3 == 1 else 1 + ((v * 2 + d) % 3) for v in range(width)]
        elif kind == "spec" and "costs" in spec and d < len(spec["costs"]):
            row = (list(spec["costs"][d]) + [1] * width)[:width]
        else:
            row = [1] * width
        rows.append(row)
    return rows


def configs_for(spec, tier: str, full=False):
    cfgs = ALL_CONFIGS if (full or tier == "thorough") else QUICK_CONFIGS
    out = []
    for cfg in cfgs:
        if needs_costs(cfg):
            if not U.nonneg(spec):
                continue
            kinds = COST_TABLES if (tier == "thorough" or full) else ["zigzag"]
            if "costs" in spec:
                kinds = kinds + ["spec"]
            for k in kinds:
                out.append(cfg + (k,))
        else:
            out.append(cfg + (None,))
    return out


def build(spec) -> Problem:
    api = spec.get("api")
    if api == "add_variable":  # the same model written through Problem.add_variable (one domain slot per variable)
        p = Problem([])
        for j, (d, off) in enumerate(spec["vars"]):
            p.add_variable(tuple(spec["doms"][j]), d, off)
    elif api == "add_variables":
        p = Problem([])
        p.add_variables([tuple(d) for d in spec["doms"]], [v[0] for v in spec["vars"]], [v[1] for v in spec["vars"]])
    elif api in ("extend", "extends"):
        # the last variable (own, last shared domain) is added with add_variable / add_variables to a problem built by the
        # constructor from the others (which may contain views); constraints use the index the call returned for it
        nd, nv = len(spec["doms"]) - 1, len(spec["vars"]) - 1
        p = Problem([tuple(d) for d in spec["doms"][:nd]], [v[0] for v in spec["vars"][:nv]], [v[1] for v in spec["vars"][:nv]])
        ret = p.add_variable(tuple(spec["doms"][nd])) if api == "extend" else p.add_variables([tuple(spec["doms"][nd])])
        for typ, vs, params in spec["cons"]:
            p.add_propagator(([int(ret) if v == nv else v for v in vs], K.ALG[typ], list(params)))
        return p
    else:
        # singleton domains are given as plain ints at even positions and as (v, v) pairs at odd ones: both forms are API
        doms = [int(d[0]) if (d[0] == d[1] and k % 2 == 0) else tuple(d) for k, d in enumerate(spec["doms"])]
        p = Problem(doms, [v[0] for v in spec["vars"]], [v[1] for v in spec["vars"]])
    for typ, vs, params in spec["cons"]:
        p.add_propagator((list(vs), K.ALG[typ], list(params)))
    return p


def make_solver(problem, spec, cfg, stack=None) -> BacktrackSolver:
    cons, varh, domh, table = cfg
    kw = {}
    if table is not None:
        t = cost_table(spec, table)
        kw["var_heuristic_params"] = t
        kw["dom_heuristic_params"] = t
    if "decision" in spec:
        kw["decision_domains"] = list(spec["decision"])
    if stack is None:
        stack = min(250, 2 * U.total_domain_size(spec) + 8)  # deeper than any search on this problem (3-way splits included)
    return BacktrackSolver(problem, consistency_alg_idx=CONS[cons], var_heuristic_idx=VARH[varh],
                           dom_heuristic_idx=DOMH[domh], stack_max_height=min(stack, 256), log_level="ERROR", **kw)


# ----------------------------------------------------------------------------------------------------------------
# interposition
# ----------------------------------------------------------------------------------------------------------------


class HeuristicAnswerError(Exception):
    pass


class Observer:
    """Base observer: override what is needed. All hooks are called around the *real* functions."""

    def on_filter(self, prop_idx, alg, dom_before, dom_after, status):  # one propagator execution
        pass

    def on_pass_start(self, solver_arrays):
        pass

    def on_pass_end(self, solver_arrays, status):
        pass

    def on_var_choice(self, dom_idx, args):
        pass

    def on_branch(self, dom_idx, events, args):
        pass

    def on_backtrack(self, ok):
        pass

    def on_cp_put(self):
        pass

    def on_shave(self, has_shaved):
        pass

    def on_consistency(self, idx, status, args):
        pass


@contextlib.contextmanager
def interpose(obs: Observer, want=("filter", "pass", "var", "dom", "backtrack", "cp_put", "shave", "consistency")):
    """Rebinds the seams of the real engine (registries are patched in place, module globals rebound)."""
    saved = []

    def setg(mod, name, val):
        saved.append((mod, name, getattr(mod, name)))
        setattr(mod, name, val)

    def setl(lst, i, val):
        saved.append((lst, i, lst[i]))
        lst[i] = val

    try:
        if "filter" in want:
            for alg in range(len(P.COMPUTE_DOMAINS_FCTS)):
                real = P.COMPUTE_DOMAINS_FCTS[alg]

                def wrapped(domains, parameters, _real=real, _alg=alg):
                    before = domains.copy()
                    status = _real(domains, parameters)
                    obs.on_filter(None, _alg, before, domains, status)
                    return status

                setl(P.COMPUTE_DOMAINS_FCTS, alg, wrapped)
        if "pass" in want:
            real_bc = BCA.bound_consistency_algorithm

            def bc_wrapped(*a):
                obs.on_pass_start(a)
                status = real_bc(*a)
                obs.on_pass_end(a, status)
                return status

            setl(CA.CONSISTENCY_ALG_FCTS, CA.CONSISTENCY_ALG_BC, bc_wrapped)
            setg(SCA, "bound_consistency_algorithm", bc_wrapped)
        if "consistency" in want:
            for idx in range(len(CA.CONSISTENCY_ALG_FCTS)):
                real_c = CA.CONSISTENCY_ALG_FCTS[idx]

                def c_wrapped(*a, _real=real_c, _idx=idx):
                    status = _real(*a)
                    obs.on_consistency(_idx, status, a)
                    return status

                setl(CA.CONSISTENCY_ALG_FCTS, idx, c_wrapped)
        if "var" in want:
            for idx in range(len(H.VAR_HEURISTIC_FCTS)):
                real_v = H.VAR_HEURISTIC_FCTS[idx]

                def v_wrapped(*a, _real=real_v):
                    r = _real(*a)
                    obs.on_var_choice(r, a)
                    return r

                setl(H.VAR_HEURISTIC_FCTS, idx, v_wrapped)
        if "dom" in want:
            for idx in range(len(H.DOM_HEURISTIC_FCTS)):
                real_d = H.DOM_HEURISTIC_FCTS[idx]

                def d_wrapped(*a, _real=real_d):
                    r = _real(*a)
                    obs.on_branch(a[5], r, a)
                    return r

                setl(H.DOM_HEURISTIC_FCTS, idx, d_wrapped)
        if "backtrack" in want:
            real_bt = CP.backtrack

            def bt_wrapped(*a):
                ok = real_bt(*a)
                obs.on_backtrack(ok)
                return ok

            setg(BS, "backtrack", bt_wrapped)
            setg(SCA, "backtrack", bt_wrapped)
        if "cp_put" in want:
            real_put = CP.cp_put

            def put_wrapped(*a):
                obs.on_cp_put()
                return real_put(*a)

            import nucs.heuristics.max_value_dom_heuristic as m1
            import nucs.heuristics.min_value_dom_heuristic as m2
            import nucs.heuristics.split_low_dom_heuristic as m3
            import nucs.heuristics.value_dom_heuristic as m4

            for m in (m1, m2, m3, m4):
                setg(m, "cp_put", put_wrapped)
        if "shave" in want:
            real_sh = SCA.shave_bound

            def sh_wrapped(*a):
                r = real_sh(*a)
                obs.on_shave(r)
                return r

            setg(SCA, "shave_bound", sh_wrapped)
        yield
    finally:
        for tgt, name, val in reversed(saved):
            if isinstance(tgt, list):
                tgt[name] = val
            else:
                setattr(tgt, name, val)


# ----------------------------------------------------------------------------------------------------------------
# running
# ----------------------------------------------------------------------------------------------------------------

ENGINE_JUMP_BUDGET = 20_000_000
_watched = False


def ensure_watch():
    global _watched
    if not _watched:
        budget.watch(budget.propagator_modules())
        budget.watch(budget.engine_modules())
        _watched = True


class Outcome:
    __slots__ = ("solutions", "stats", "abort", "abort_detail", "result", "solver", "problem", "jumps")

    def __init__(self):
        self.solutions: List[tuple] = []
        self.stats: Dict[str, int] = {}
        self.abort: Optional[str] = None  # None | 'budget' | 'index' | 'heuristic' | 'exc:<Name>'
        self.abort_detail = ""
        self.result = None
        self.solver = None
        self.problem = None


def classify(e: BaseException):
    if isinstance(e, budget.BudgetExceeded):
        return "budget"
    if isinstance(e, IndexError):
        return "index"
    if isinstance(e, HeuristicAnswerError):
        return "heuristic"
    return "exc:" + type(e).__name__


def default_budget(spec) -> int:
    """Calibrated on the unchanged tree: the largest terminating run of the quick universe (every configuration, enumerate /
    minimise / maximise) uses 0.42 * (20000 + 400 * n) loop iterations, n = number of assignments; the budget is 25 times that
    shape (60 times the observed maximum for small problems), capped at ENGINE_JUMP_BUDGET."""
    return min(ENGINE_JUMP_BUDGET, 300_000 + 6_000 * U.n_assignments(spec))


# A tree on which runs do not terminate would make a check take hours (every exhausted budget costs about a second):
# after BUDGET_HIT_LIMIT exhausted budgets in one worker process the remaining runs of that process are skipped; the skipped
# runs are counted and reported as a cap (exhaustive: false). Never happens on a tree where the properties hold.
BUDGET_HIT_LIMIT = 4
_budget_hits = [0]


def run(spec, cfg, mode="enumerate", var=None, limit=None, jump_budget=None, stack=None,
        max_solutions=None, entry="solve") -> Outcome:
    """mode: 'enumerate' (solve() to exhaustion or `limit` solutions), 'min', 'max' (on variable `var`).
    entry (enumerate only): which public spelling is used: 'solve' (the generator), 'find_all', 'solve_all' (callback)."""
    ensure_watch()
    out = Outcome()
    out.jumps = 0
    if jump_budget is None:
        jump_budget = default_budget(spec)
    if _budget_hits[0] >= BUDGET_HIT_LIMIT and jump_budget < (1 << 59):
        out.abort, out.abort_detail = "skipped", "skipped after repeated exhausted step budgets in this worker process"
        return out
    try:
        budget.start(jump_budget)
        out.problem = build(spec)
        out.solver = make_solver(out.problem, spec, cfg, stack)
        if mode == "enumerate":
            cap = max_solutions if max_solutions is not None else 4 * max(1, U.n_assignments(spec)) + 4
            if entry == "find_all":
                it = out.solver.find_all()
            elif entry == "solve_all":
                it = []
                out.solver.solve_all(it.append)
            else:
                it = out.solver.solve()
            for sol in it:
                out.solutions.append(tuple(int(v) for v in sol))
                if limit is not None and len(out.solutions) >= limit:
                    break
                if len(out.solutions) > cap:
                    out.abort, out.abort_detail = "budget", "more solutions yielded than assignments exist"
                    break
        else:
            r = out.solver.minimize(var) if mode == "min" else out.solver.maximize(var)
            out.result = None if r is None else tuple(int(v) for v in r)
        out.stats = out.solver.get_statistics()
    except BaseException as e:  # noqa
        if isinstance(e, (KeyboardInterrupt, SystemExit, TimeoutError)):
            raise
        out.abort = classify(e)
        out.abort_detail = f"{type(e).__name__}: {e}"[:200]
        if out.solver is not None:
            out.stats = out.solver.get_statistics()
    finally:
        out.jumps = budget.used()
        budget.stop()
    if out.abort == "budget":
        _budget_hits[0] += 1
    return out


def cfg_name(cfg):
    return "/".join(str(c) for c in cfg if c is not None)
