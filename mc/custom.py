"""Two user-defined propagators whose filtering functions are *different function objects with the same __name__* (two plug-ins
that both call their function `compute_domains`, or a corrected redefinition of a function): x0 < x1 and x0 > x1.
Used by the C15 probe (part 'custom') and history operation N."""
import numpy as np
from numba import njit  # type: ignore


def get_triggers_custom(n, parameters):
    return np.full(n, dtype=np.uint8, fill_value=3)  # MIN | MAX


def get_complexity_custom(n, parameters):
    return 1.0


def make(kind):
    if kind == "lt":

        @njit
        def compute_domains(domains, parameters):  # x0 < x1
            if domains[1, 0] < domains[0, 0] + 1:
                domains[1, 0] = domains[0, 0] + 1
            if domains[0, 1] > domains[1, 1] - 1:
                domains[0, 1] = domains[1, 1] - 1
            if domains[0, 0] > domains[0, 1] or domains[1, 0] > domains[1, 1]:
                return 0
            return 1

    else:

        @njit
        def compute_domains(domains, parameters):  # x0 > x1
            if domains[0, 0] < domains[1, 0] + 1:
                domains[0, 0] = domains[1, 0] + 1
            if domains[1, 1] > domains[0, 1] - 1:
                domains[1, 1] = domains[0, 1] - 1
            if domains[0, 0] > domains[0, 1] or domains[1, 0] > domains[1, 1]:
                return 0
            return 1

    return compute_domains


def solve_with(kind):
    from nucs.problems.problem import Problem
    from nucs.propagators.propagators import register_propagator
    from nucs.solvers.backtrack_solver import BacktrackSolver

    alg = register_propagator(get_triggers_custom, get_complexity_custom, make(kind))
    q = Problem([(0, 2), (0, 2)])
    q.add_propagator(([0, 1], alg, []))
    solver = BacktrackSolver(q, log_level="ERROR")
    return {"solutions": [[int(v) for v in x] for x in solver.solve()], "stats": solver.get_statistics()}
