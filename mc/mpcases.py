"""Cases for SchedMC: (problem spec, partition into sub-problems, mode)."""
import copy
import itertools

from mc import solvemc as S, universe as U
from nucs.solvers.backtrack_solver import BacktrackSolver


def compositions(lo, hi, parts):
    """All cuts of [lo,hi] into `parts` contiguous non-empty pieces."""
    size = hi - lo + 1
    out = []
    for cuts in itertools.combinations(range(1, size), parts - 1):
        b = [0] + list(cuts) + [size]
        out.append([(lo + b[i], lo + b[i + 1] - 1) for i in range(parts)])
    return out


def partitions(spec, tier):
    """Yields (name, list of sub-specs)."""
    th = tier == "thorough"
    nd = len(spec["doms"])
    # Problem.split on the first and the last shared domain
    for idx in sorted({0, nd - 1}):
        for k in (1, 2, 3):
            p = S.build(spec)
            subs = []
            for part in p.split(k, idx):
                s = copy.deepcopy(spec)
                s["doms"] = [list(d) for d in part.shr_domains_lst]
                subs.append(s)
            yield f"split(k={k},dom={idx})", subs
    lo, hi = spec["doms"][0]
    for parts in (2, 3):
        for comp in compositions(lo, hi, parts)[: (None if th else 4)]:
            subs = []
            for piece in comp:
                s = copy.deepcopy(spec)
                s["doms"][0] = list(piece)
                subs.append(s)
            yield f"cut{comp}", subs


def make_solvers(subs, cfg=("bc", "first", "min", None)):
    return [S.make_solver(S.build(s), s, cfg) for s in subs]


def permuted_specs():
    """Layouts where variable i does not use shared domain i, with different bounds per domain (what Problem.split and the
    views are most easily confused by)."""
    out = []
    leq = [("affine_leq", [0, 2], (1, -1, 1))]
    geq = [("affine_geq", [0, 1], (1, 3, 16))]
    out.append(U.spec([(0, 3), (-1, 0), (2, 4)], [(1, 0), (2, 10), (0, 0)], leq, "MP:permuted"))
    out.append(U.spec([(2, 4), (0, 3), (-1, 0)], [(2, 0), (0, -4), (1, 3)], [], "MP:rotated"))
    out.append(U.spec([(0, 3), (10, 14)], [(1, 0), (0, 0), (0, 5)], geq, "MP:swapped+view"))
    out.append(U.spec([(0, 2), (3, 5)], [(1, 0), (0, 0)], [("alldifferent", [0, 1], ())], "MP:swapped"))
    out.append(U.spec([(0, 2), (0, 3)], [(0, 0), (0, 1), (1, 0)], [("affine_eq", [0, 1, 2], (1, 1, -1, 0))], "MP:shared-then-own"))
    return out


def mp_specs(tier):
    """Small problems with few solutions (all merges are explored) from every family."""
    out = []
    seen = set()
    for s in U.universe("quick", ("F3", "F4")):
        if U.n_assignments(s) <= 700:
            out.append(s)
    f12 = [s for s in U.universe("quick", ("F1", "F2")) if s["tag"].endswith(":own") or s["tag"].startswith("F2")]
    step = 97 if tier == "quick" else 23
    out += f12[::step]
    out += permuted_specs()
    return out
