"""
The problem universe U (DESIGN 2.8).  A problem spec is a plain dict (JSON-able, hashable through `key`):

  {"doms": [[lo, hi], ...],            shared domains
   "vars": [[dom_idx, offset], ...],   variables
   "cons": [[type, [var...], [param...]], ...]   constraints in posting order
   "tag":  family / layout}

Families: F1 single constraint alone in a solver (layouts: own domains, one variable twice, one shared domain
twice with offsets 0/+1), F2 pairs of constraints with overlapping scopes, F3 shipped models at toy size,
F4 adversarial structures (termination / capacity).
"""
import itertools
from typing import Dict, Iterator, List

from mc import contracts as K


def spec(doms, vars_, cons, tag=""):
    return {"doms": [list(d) for d in doms], "vars": [list(v) for v in vars_],
            "cons": [[c[0], list(c[1]), list(c[2])] for c in cons], "tag": tag}


def key(s) -> str:
    return repr((s["doms"], s["vars"], s["cons"], s.get("decision")))


def var_range(s, v):
    d, off = s["vars"][v]
    return s["doms"][d][0] + off, s["doms"][d][1] + off


def brute(s) -> List[tuple]:
    """All solutions by enumeration of the cartesian product of the shared domains (independent of NuCS)."""
    sols = []
    cons = [(K.PRED[c[0]], c[1], tuple(c[2])) for c in s["cons"]]
    for dv in itertools.product(*[range(lo, hi + 1) for lo, hi in s["doms"]]):
        x = tuple(dv[d] + off for d, off in s["vars"])
        if all(pred(tuple(x[v] for v in vs), p) for pred, vs, p in cons):
            sols.append(x)
    return sols


def n_assignments(s) -> int:
    r = 1
    for lo, hi in s["doms"]:
        r *= max(0, hi - lo + 1)
    return r


def total_domain_size(s) -> int:
    return sum(hi - lo + 1 for lo, hi in s["doms"])


def nonneg(s) -> bool:
    return all(lo >= 0 for lo, hi in s["doms"])


# ----------------------------------------------------------------------------------------------------------------
# F1
# ----------------------------------------------------------------------------------------------------------------


def reduced_instances(typ: str, tier: str) -> Iterator[K.Instance]:
    """A reduced contract table for whole-solver runs (3 values per variable)."""
    th = tier == "thorough"
    if typ in ("affine_eq", "affine_geq", "affine_leq"):
        for n in (1, 2, 3):
            for coeffs in itertools.product((-1, 0, 1, 2), repeat=n):
                for rhs in ((-2, 0, 1, 3) if not th else (-3, -2, -1, 0, 1, 2, 3)):
                    yield n, tuple(coeffs) + (rhs,), ((-1, 1),) * n
        if th:
            for coeffs in itertools.product((-2, 3), repeat=2):
                for rhs in (-1, 0, 1, 5):
                    yield 2, tuple(coeffs) + (rhs,), ((-1, 2),) * 2
    elif typ == "gcc":
        for n in (2, 3):
            for m in (2, 3):
                for lows in itertools.product((0, 1), repeat=m):
                    # upper capacities are positive: with a capacity 0 the propagator does not terminate (known finding
                    # gcc:ucap0:*, reported at its root by C04 / C06 / C14); whole-solver runs on such problems would only
                    # re-report it in other guises and exhaust the step budgets
                    for ups in itertools.product((1, 2, 3) if th else (1, 2), repeat=m):
                        if all(a <= b for a, b in zip(lows, ups)):
                            yield n, (0,) + tuple(lows) + tuple(ups), ((0, m - 1),) * n
    elif typ == "relation":
        for n in (1, 2):
            pool = list(itertools.product((-1, 0, 1), repeat=n))
            for k in (1, 2, 3):
                for tuples in itertools.combinations_with_replacement(pool, k):
                    if not th and k == 3 and n == 2 and (hash(tuples) % 4):
                        continue
                    yield n, tuple(v for t in tuples for v in t), ((-1, 1),) * n
        pool = list(itertools.product((0, 1), repeat=3))
        for tuples in itertools.combinations(pool, 3 if th else 2):
            yield 3, tuple(v for t in tuples for v in t), ((0, 1),) * 3
    elif typ in ("no_sub_cycle", "scc"):
        return  # only ever posted together with alldifferent: families F2 / F3
    else:
        seen = set()
        for n, params, axes in K.instances(typ, "quick"):
            # shrink wide axes to at most 4 values to keep the search small; keep negative values
            ax = tuple((lo, min(hi, lo + 3)) for lo, hi in axes)
            k = (n, params, ax)
            if k not in seen:
                seen.add(k)
                yield k


def _layouts(typ, n, params, axes, tier):
    th = tier == "thorough"
    cons = lambda vs: [(typ, vs, params)]  # noqa
    # (i) one own domain per variable
    yield spec(axes, [(i, 0) for i in range(n)], cons(list(range(n))), f"F1:{typ}:own")
    if n < 2:
        return
    if n >= 3:
        # (iv) three positions on one shared domain (three views: offsets 0/0/0, 0/0/1, 0/1/2)
        lo3, hi3 = max(a[0] for a in axes[:3]), min(a[1] for a in axes[:3])
        for offs in ((0, 0, 0), (0, 0, 1), (0, 1, 2), (1, 0, 0)):
            if hi3 - max(offs) < lo3:
                continue
            doms, variables, vs = [(lo3, hi3 - max(offs))], [], []
            for i in range(n):
                if i < 3:
                    variables.append((0, offs[i]))
                else:
                    doms.append(axes[i])
                    variables.append((len(doms) - 1, 0))
                vs.append(len(variables) - 1)
            yield spec(doms, variables, cons(vs), f"F1:{typ}:views{''.join(map(str, offs))}")
    pairs = list(itertools.combinations(range(n), 2)) if th else sorted({(0, 1), (0, n - 1), (n - 2, n - 1)})
    for a, b in pairs:
        if a == b:
            continue
        lo, hi = max(axes[a][0], axes[b][0]), min(axes[a][1], axes[b][1])
        if lo > hi:
            continue
        # (ii) the same variable at two positions
        doms, vs = [], []
        for i in range(n):
            if i == b:
                vs.append(vs[a])
                continue
            doms.append((lo, hi) if i == a else axes[i])
            vs.append(len(doms) - 1)
        yield spec(doms, [(i, 0) for i in range(len(doms))], cons(vs), f"F1:{typ}:samevar{a}{b}")
        # (iii) the same shared domain at two positions, offsets 0 and +1 (queens / magic-sequence shape)
        if hi - lo >= 1:
            doms, variables, vs = [], [], []
            for i in range(n):
                if i == b:
                    variables.append((variables[vs[a]][0], 1))
                else:
                    doms.append((lo, hi - 1) if i == a else axes[i])
                    variables.append((len(doms) - 1, 0))
                vs.append(len(variables) - 1)
            yield spec(doms, variables, cons(vs), f"F1:{typ}:shared{a}{b}")


def _sub_boxes(axes, tier):
    """Initial boxes: the search itself explores the sub-boxes, so only a few starting points are needed."""
    yield tuple(axes)
    if tier == "thorough":
        for b in K.boxes(axes):
            if tuple(b) != tuple(axes):
                yield b
    else:
        lo, hi = axes[0]
        for v in range(lo, hi + 1):  # first variable singleton
            if lo != hi:
                yield ((v, v),) + tuple(axes[1:])
        if len(axes) > 1 and axes[-1][0] != axes[-1][1]:
            yield tuple(axes[:-1]) + ((axes[-1][1], axes[-1][1]),)


def f1(tier: str, types=None) -> Iterator[Dict]:
    for typ in types or K.TYPES:
        for n, params, axes in reduced_instances(typ, tier):
            nb = K.n_boxes(axes)
            for box in _sub_boxes(axes, tier if nb <= 40 else "quick"):
                if box == tuple(axes):
                    yield from _layouts(typ, n, params, box, tier)
                else:
                    yield spec(box, [(i, 0) for i in range(n)], [(typ, list(range(n)), params)], f"F1:{typ}:box")


# ----------------------------------------------------------------------------------------------------------------
# F2: pairs of constraints with overlapping scopes
# ----------------------------------------------------------------------------------------------------------------

# representative parameterisations: (type, arity, params); variables are picked from a pool of 3-4 variables
REPR = [
    ("affine_eq", 2, (1, 1, 1)), ("affine_eq", 3, (1, 1, -1, 0)), ("affine_eq", 2, (2, 2, 3)), ("affine_eq", 2, (1, -1, 0)),
    ("affine_geq", 2, (1, 1, 2)), ("affine_geq", 3, (1, -2, 1, 0)),
    ("affine_leq", 2, (1, -1, -1)), ("affine_leq", 3, (2, 1, 1, 3)),
    ("alldifferent", 3, ()), ("alldifferent", 2, ()),
    ("count_eq", 3, (1,)), ("count_eq", 3, (0,)),
    ("exactly_eq", 3, (1, 1)), ("exactly_eq", 2, (0, 1)),
    ("element_lic", 3, (1,)), ("element_liv", 3, ()), ("element_liv", 4, ()),
    ("element_iv", 2, (1, 0, 2)), ("element_iv", 2, (2, 2, 0)),
    ("lexicographic_leq", 2, ()), ("lexicographic_leq", 4, ()),
    ("max_eq", 3, ()), ("min_eq", 3, ()), ("max_leq", 3, ()), ("min_geq", 3, ()), ("max_eq", 2, ()),
    ("relation", 2, (0, 1, 1, 2, 2, 0)), ("relation", 2, (0, 0, 1, 1, 1, 1)), ("relation", 3, (0, 1, 2, 2, 1, 0, 1, 1, 1)),
    ("gcc", 3, (0, 0, 0, 0, 1, 2, 1)), ("gcc", 3, (0, 1, 0, 1, 2, 1, 2)),
    ("dummy", 2, ()),
]
REPR_BOOL = [("and", 3, ()), ("and", 2, ()), ("exactly_true", 3, (1,)), ("exactly_true", 3, (2,)), ("exactly_true", 2, (1,)),
             ("lexicographic_leq", 2, ()), ("lexicographic_leq", 4, ()), ("affine_eq", 3, (1, 1, 1, 2)),
             ("affine_leq", 2, (1, 1, 1)), ("count_eq", 3, (1,)), ("max_eq", 3, ()), ("min_eq", 3, ()),
             ("alldifferent", 2, ()), ("relation", 2, (0, 1, 1, 0)), ("element_lic", 3, (1,)), ("gcc", 3, (0, 1, 1, 2, 2))]


def _scopes(arity, nvars, tier):
    if tier == "thorough":
        return [p for p in itertools.permutations(range(nvars), arity)] if arity <= nvars else []
    out = []
    base = list(range(nvars))
    if arity <= nvars:
        out.append(tuple(base[:arity]))
        out.append(tuple(reversed(base))[:arity])
        if arity < nvars:
            out.append(tuple(base[-arity:]))
    return sorted(set(out))


def f2(tier: str) -> Iterator[Dict]:
    th = tier == "thorough"
    for pool, dom, tag in ((REPR, (0, 2), "int"), (REPR_BOOL, (0, 1), "bool")):
        nvars = 3
        for (t1, a1, p1), (t2, a2, p2) in itertools.product(pool, repeat=2):
            nv = max(nvars, a1, a2)
            s1 = _scopes(a1, nv, "quick")[:1]
            s2 = _scopes(a2, nv, tier)
            for sc1 in s1:
                for sc2 in (s2 if th else s2[:2]):
                    yield spec([dom] * nv, [(i, 0) for i in range(nv)], [(t1, sc1, p1), (t2, sc2, p2)], f"F2:{tag}:{t1}+{t2}")
    yield from f2_shared(tier)
    # negative domains
    for (t1, a1, p1), (t2, a2, p2) in itertools.product([r for r in REPR if r[0] in K.TRANSLATION_COVARIANT or r[0].startswith("affine")], repeat=2):
        nv = max(3, a1, a2)
        yield spec([(-2, 0)] * nv, [(i, 0) for i in range(nv)], [(t1, tuple(range(a1)), p1), (t2, tuple(range(nv - a2, nv)), p2)],
                   f"F2:neg:{t1}+{t2}")


def f2_shared(tier: str) -> Iterator[Dict]:
    """Pairs of constraints where the first one sees one shared domain at two positions (offsets 0 / +1, or the same
    variable twice) and the second one prunes that shared domain: wake-ups of the first by the second go through the
    combined trigger mask of the shared domain."""
    first = [r for r in REPR if r[1] >= 2 and r[0] not in ("gcc", "element_iv", "dummy")]
    second = [("affine_leq", 2, (1, 1, 2)), ("affine_geq", 2, (1, 1, 2)), ("affine_eq", 2, (1, -1, 0)), ("alldifferent", 2, ()),
              ("max_leq", 2, ()), ("min_geq", 2, ()), ("affine_leq", 2, (1, -1, -1)), ("affine_geq", 2, (1, -1, 1)),
              ("relation", 2, (0, 2, 1, 0, 2, 1))]
    extra_first = [("affine_leq", 3, (-1, 1, 1, 1)), ("affine_leq", 3, (1, 1, -1, 1)), ("affine_geq", 3, (-1, 1, 1, 0)),
                   ("affine_geq", 3, (1, -2, -1, -2)), ("affine_leq", 3, (-2, -2, 1, -2)), ("affine_leq", 2, (-1, 1, 1)),
                   ("affine_geq", 2, (1, -1, -1)), ("max_leq", 3, ()), ("min_geq", 3, ()), ("max_leq", 2, ()), ("min_geq", 2, ())]
    for (t1, a1, p1) in first + extra_first:
        pairs = [(0, a1 - 1)] + ([(0, 1)] if a1 > 2 else []) + ([(1, a1 - 1)] if a1 > 2 and tier == "thorough" else [])
        for (pa, pb) in pairs:
            for off in (1, 0):
                # variables of constraint 1: position pa -> (dom 0, 0), position pb -> (dom 0, off); others own domains
                doms, variables, scope = [(0, 2)], [(0, 0), (0, off)], []
                for i in range(a1):
                    if i == pa:
                        scope.append(0)
                    elif i == pb:
                        scope.append(1)
                    else:
                        doms.append((0, 2))
                        variables.append((len(doms) - 1, 0))
                        scope.append(len(variables) - 1)
                doms.append((0, 2))
                variables.append((len(doms) - 1, 0))
                free = len(variables) - 1
                for (t2, a2, p2) in second:
                    for sc2 in ((0, free), (free, 0)) if tier == "thorough" else ((0, free),):
                        yield spec(doms, variables, [(t1, scope, p1), (t2, sc2, p2)], f"F2:shared:{t1}+{t2}")
                        yield spec(doms, variables, [(t2, sc2, p2), (t1, scope, p1)], f"F2:shared:{t2}+{t1}")


# ----------------------------------------------------------------------------------------------------------------
# F3: shipped models at toy size, rebuilt from their definitions as specs (the shipped classes themselves are
#     exercised by C20); F4: adversarial structures
# ----------------------------------------------------------------------------------------------------------------


def circuit(n, extra=()):
    doms = [(1, n - 1)] + [(0, n - 1)] * (n - 2) + [(0, n - 2)] if n >= 2 else [(0, 0)]
    vs = list(range(n))
    return spec(doms, [(i, 0) for i in range(n)], [("alldifferent", vs, ()), ("no_sub_cycle", vs, ())] + list(extra), f"F3:circuit{n}")


def queens(n):
    doms = [(0, n - 1)] * n
    variables = [(i, 0) for i in range(n)] + [(i, i) for i in range(n)] + [(i, -i) for i in range(n)]
    return spec(doms, variables, [("alldifferent", list(range(n)), ()), ("alldifferent", list(range(n, 2 * n)), ()),
                                  ("alldifferent", list(range(2 * n, 3 * n)), ())], f"F3:queens{n}")


def magic_sequence(n):
    doms = [(0, n)] * n
    cons = [("count_eq", list(range(n)) + [i], (i,)) for i in range(n)]
    cons.append(("affine_eq", list(range(n)), (1,) * n + (n,)))
    cons.append(("affine_eq", list(range(n)), tuple(range(n)) + (n,)))
    return spec(doms, [(i, 0) for i in range(n)], cons, f"F3:magicseq{n}")


def latin_square(n):
    doms = [(0, n - 1)] * (n * n)
    cons = [("alldifferent", [i * n + j for j in range(n)], ()) for i in range(n)]
    cons += [("alldifferent", [i * n + j for i in range(n)], ()) for j in range(n)]
    return spec(doms, [(i, 0) for i in range(n * n)], cons, f"F3:latin{n}")


def schur(n):
    doms = [(0, 1)] * (3 * n)
    cons = [("exactly_true", [3 * i, 3 * i + 1, 3 * i + 2], (1,)) for i in range(n)]
    for x in range(n):
        for y in range(n):
            z = x + y + 1
            if z < n:
                for k in range(3):
                    cons.append(("affine_leq", [3 * x + k, 3 * y + k, 3 * z + k], (1, 1, 1, 2)))
    return spec(doms, [(i, 0) for i in range(3 * n)], cons, f"F3:schur{n}")


def knapsack():
    weights, volumes, cap = [3, 4, 2], [2, 3, 4], 6
    doms = [(0, 1)] * 3 + [(0, sum(weights))]
    cons = [("affine_leq", [0, 1, 2], tuple(volumes) + (cap,)), ("affine_eq", [0, 1, 2, 3], tuple(weights) + (-1, 0))]
    return spec(doms, [(i, 0) for i in range(4)], cons, "F3:knapsack")


def tsp(costs):
    n = len(costs)
    s = circuit(n)
    maxc = [max(r) for r in costs]
    minc = [min(c for c in r if c > 0) for r in costs]
    for i in range(n):
        s["doms"].append([minc[i], maxc[i]])
        s["vars"].append([n + i, 0])
    s["doms"].append([sum(minc), sum(maxc)])
    s["vars"].append([2 * n, 0])
    for i in range(n):
        s["cons"].append(["element_iv", [i, n + i], list(costs[i])])
    s["cons"].append(["affine_eq", list(range(n, 2 * n + 1)), [1] * n + [-1, 0]])
    s["tag"] = f"F3:tsp{n}"
    s["decision"] = list(range(n))
    s["costs"] = [list(r) for r in costs]
    return s


def golomb_like(n):
    # marks m_0=0 < m_1 < ... ; pairwise differences alldifferent, written with affine constraints only
    L = n * n // 2 + 1
    doms = [(0, 0)] + [(1, L)] * (n - 1)
    variables = [(i, 0) for i in range(n)]
    cons = []
    dvars = []
    for i in range(n):
        for j in range(i + 1, n):
            doms.append((1, L))
            variables.append((len(doms) - 1, 0))
            d = len(variables) - 1
            dvars.append(d)
            cons.append(("affine_eq", [j, i, d], (1, -1, -1, 0)))
    cons.append(("alldifferent", dvars, ()))
    return spec(doms, variables, cons, f"F3:golomb{n}")


def f3(tier: str) -> Iterator[Dict]:
    th = tier == "thorough"
    for n in (1, 2, 3, 4) + ((5,) if th else ()):
        yield queens(n)
    for n in (1, 2, 3, 4) + ((5, 6) if th else ()):
        yield magic_sequence(n)
    for n in (1, 2) + ((3,) if th else ()):
        yield latin_square(n)
    for n in (2, 3, 4) + ((5,) if th else ()):
        yield circuit(n)
    yield knapsack()
    yield tsp([[0, 2, 3, 1], [2, 0, 1, 3], [3, 1, 0, 2], [1, 3, 2, 0]])
    yield tsp([[0, 1, 1, 2], [1, 0, 2, 1], [1, 2, 0, 1], [2, 1, 1, 0]])  # ties in the cost rows
    for n in (3, 4) + ((5,) if th else ()):
        yield schur(n)
    yield golomb_like(3)


def f4(tier: str) -> Iterator[Dict]:
    # two sub-cycle constraints on one circuit (wake each other on GROUND events)
    for n in (3, 4, 5):
        yield circuit(n, extra=[("no_sub_cycle", list(range(n)), ())])
        yield circuit(n, extra=[("scc", list(range(n)), ())])
    # several GROUND-only watchers on one variable
    yield spec([(0, 2)] * 3, [(i, 0) for i in range(3)],
               [("alldifferent", [0, 1, 2], ()), ("no_sub_cycle", [0, 1, 2], ()), ("no_sub_cycle", [0, 1, 2], ()),
                ("no_sub_cycle", [0, 1, 2], ())], "F4:3xsubcycle")
    # one shared domain twice in a constraint
    yield spec([(0, 3)], [(0, 0), (0, 1)], [("affine_leq", [0, 1], (1, 1, 4))], "F4:shared-twice-leq")
    yield spec([(0, 3), (0, 3)], [(0, 0), (0, 1), (1, 0)], [("affine_eq", [0, 1, 2], (1, 1, -1, 0))], "F4:shared-twice-eq")
    yield spec([(0, 2), (0, 2)], [(0, 0), (1, 0), (0, 1)], [("affine_leq", [0, 1, 2], (-2, -2, 1, -2))], "F4:shared-mixed-triggers")
    yield spec([(0, 3), (0, 3)], [(0, 0), (0, 1), (1, 0)], [("max_eq", [0, 1, 2], ())], "F4:shared-twice-max")
    yield spec([(0, 2)], [(0, 0), (0, 1), (0, 2)], [("alldifferent", [0, 1, 2], ())], "F4:shared-thrice-alldiff")
    yield spec([(0, 3)], [(0, 0), (0, 0)], [("affine_eq", [0, 1], (1, 1, 4))], "F4:samevar-eq")
    # infeasible and tight gcc capacities (positive upper capacities)
    yield spec([(0, 1)] * 3, [(i, 0) for i in range(3)], [("gcc", [0, 1, 2], (0, 0, 0, 1, 1))], "F4:gcc-sum-u<n")
    yield spec([(0, 1)] * 2, [(i, 0) for i in range(2)], [("gcc", [0, 1], (0, 1, 1, 2, 2)), ("alldifferent", [0, 1], ())], "F4:gcc+alldiff")
    yield spec([(0, 2)] * 2, [(i, 0) for i in range(2)], [("gcc", [0, 1], (0, 1, 1, 1, 1, 1, 1))], "F4:gcc-sum-l>n")
    # objective watched by no constraint / by a non-noticing constraint
    yield spec([(0, 2), (0, 2)], [(0, 0), (1, 0)], [("affine_leq", [0], (1, 1))], "F4:free-objective")
    yield spec([(0, 2), (0, 2)], [(0, 0), (1, 0)], [("dummy", [0, 1], ())], "F4:dummy-only")
    yield spec([(0, 2), (0, 2)], [(0, 0), (1, 0)], [], "F4:no-constraint")
    yield spec([(-2, 1)], [(0, 0), (0, 2)], [], "F4:no-constraint-offset")
    yield spec([(0, 2)] * 3, [(i, 0) for i in range(3)], [("alldifferent", [0, 1, 2], ()), ("no_sub_cycle", [0, 1, 2], ())], "F4:ground-watchers-objective")
    yield spec([(0, 2), (0, 3)], [(0, 0), (1, 0)], [("max_leq", [0, 1], ())], "F4:max_leq-objective")


def f5(tier: str) -> Iterator[Dict]:
    """Small systems of binary constraints over 4 variables: every set of k constraints from a small alphabet
    (equalities and one-sided linear constraints, the propagators that watch one bound only)."""
    nv = 4
    pairs = list(itertools.combinations(range(nv), 2))
    alphabet = []
    for (i, j) in pairs:
        alphabet += [("affine_eq", [i, j], (1, -1, 0)), ("affine_geq", [i, j], (1, 1, 1)), ("affine_leq", [i, j], (1, 1, 1))]
    sizes = (3,) if tier == "quick" else (3, 4)
    for k in sizes:
        for cons in itertools.combinations(alphabet, k):
            if len({v for c in cons for v in c[1]}) < nv:
                continue
            yield spec([(0, 1)] * nv, [(i, 0) for i in range(nv)], cons, f"F5:bool{k}")
    # two disjoint equality/cover blocks joined by a one-sided constraint (x=u, x+u>=1, y=v, y+v>=1, x+y<=1 and variants)
    joins = [("affine_leq", (1, 1, 1)), ("affine_geq", (1, 1, 1)), ("affine_leq", (1, -1, 0)), ("affine_geq", (1, 1, 2)), ("max_leq", ()), ("min_geq", ())]
    blocks = [[("affine_eq", (1, -1, 0)), ("affine_geq", (1, 1, 1))], [("affine_eq", (1, -1, 0)), ("affine_leq", (1, 1, 1))],
              [("affine_leq", (1, -1, 0)), ("affine_geq", (1, -1, 0))], [("affine_eq", (1, -1, 0))]]
    for dom in ((0, 1), (-1, 0), (0, 2)):
        for b1, b2 in itertools.product(blocks, repeat=2):
            for jt, jp in joins:
                cons = [(t, [0, 1], p) for t, p in b1] + [(t, [2, 3], p) for t, p in b2] + [(jt, [0, 2], jp)]
                yield spec([dom] * nv, [(i, 0) for i in range(nv)], cons, "F5:blocks")
                yield spec([dom] * 5, [(i, 0) for i in range(5)], [(jt, [0, 2], jp)] + cons[:-1], "F5:blocks+free")


def f6(tier: str) -> Iterator[Dict]:
    """Explicit decision domains in a non-default order (reversed, as the shipped magic-sequence launcher does, and rotated):
    the order is a solver parameter, the solution set does not depend on it."""
    import copy

    base = [s for s in f3(tier) if n_assignments(s) <= 3000 and "decision" not in s] + list(f4(tier))
    base += [s for i, s in enumerate(f5(tier)) if i % (7 if tier == "quick" else 2) == 0]
    base += [s for i, s in enumerate(f2(tier)) if i % (23 if tier == "quick" else 5) == 0]
    base += [s for i, s in enumerate(f1(tier)) if i % (61 if tier == "quick" else 301) == 0]
    for s in base:
        nd = len(s["doms"])
        if nd < 2:
            continue
        for name, order in (("rev", list(range(nd - 1, -1, -1))), ("rot", list(range(1, nd)) + [0])):
            t = copy.deepcopy(s)
            t["decision"] = order
            t["tag"] = f"F6:{name}:" + s["tag"]
            yield t
    # an auxiliary variable declared *first* (shared domain 0), equal to a variable of the model, and decision domains = the
    # original domains only (the TSP launcher's shape: decisions on a subset, the rest fixed by propagation); the decision
    # domains are then neither a prefix of the shared domains nor all of them
    for k, s in enumerate(base):
        nd = len(s["doms"])
        if nd > 5 or k % (3 if tier == "quick" else 1):
            continue
        for target in sorted({0, len(s["vars"]) - 1}):
            t = copy.deepcopy(s)
            lo, hi = var_range(s, target)
            t["doms"] = [[lo, hi]] + t["doms"]
            t["vars"] = [[d + 1, off] for d, off in t["vars"]] + [[0, 0]]
            aux = len(t["vars"]) - 1
            t["cons"] = t["cons"] + [["affine_eq", [aux, target], [1, -1, 0]]]
            t["decision"] = list(range(1, nd + 1))
            if "costs" in t:
                del t["costs"]
            t["tag"] = f"F6:aux-first{target}:" + s["tag"]
            yield t


BOOL_ONLY = ("and", "exactly_true", "gcc")  # in F7: domains must stay inside [0,1] for these joins


def f7(tier: str) -> Iterator[Dict]:
    """Hidden infeasibility gadgets joined by one constraint: a value of a variable is refuted only once it is *tried*
    (by a shaving probe or by a branch), never by bound consistency on the open box, and an entailment-capable or one-sided
    constraint P links two such variables.  Exercises the entailment flags and wake-ups around refuted probes / branches.
      relation gadget H(b, w), b in [0,1], w in [0,2]:  (b,w) in {(0,1),(1,0),(1,2)} and (b,w) in {(0,0),(1,0),(1,2)}: b=0 impossible
      mirrored: b=1 impossible;  pigeonhole gadget (x; a, c): x in [1,2], a, c in [0,1], x!=a, x!=c, a!=c: x=1 impossible"""
    def gadget(b, w, mirrored):
        f = (lambda t: (1 - t[0], t[1])) if mirrored else (lambda t: t)
        r1 = [f(t) for t in ((0, 1), (1, 0), (1, 2))]
        r2 = [f(t) for t in ((0, 0), (1, 0), (1, 2))]
        return [("relation", [b, w], tuple(v for t in r1 for v in t)), ("relation", [b, w], tuple(v for t in r2 for v in t))]

    joins2 = [("exactly_eq", (1, 1)), ("exactly_eq", (0, 1)), ("exactly_eq", (1, 2)), ("exactly_true", (1,)), ("exactly_true", (2,)),
              ("affine_leq", (1, 1, 1)), ("affine_geq", (1, 1, 1)), ("affine_leq", (1, -1, 0)), ("affine_geq", (1, -1, 0)),
              ("affine_geq", (1, 1, 2)), ("affine_eq", (1, 1, 1)), ("affine_eq", (1, -1, 0)), ("max_leq", ()), ("min_geq", ()),
              ("alldifferent", ()), ("relation", (0, 1, 1, 0)), ("relation", (1, 1, 0, 0)), ("lexicographic_leq", ()),
              ("element_iv", (1, 0)), ("element_iv", (1, 1)), ("gcc", (0, 0, 0, 2, 1)), ("gcc", (0, 1, 1, 1, 1))]
    joins3 = [("and", ()), ("count_eq", (1,)), ("count_eq", (0,)), ("max_eq", ()), ("min_eq", ()), ("affine_eq", (1, 1, -1, 0)),
              ("exactly_eq", (1, 2)), ("exactly_true", (2,)), ("affine_leq", (1, 1, -1, 0)), ("element_liv", ()), ("element_lic", (1,))]
    for m1, m2 in itertools.product((False, True), repeat=2):
        g = gadget(0, 1, m1) + gadget(2, 3, m2)
        for jt, jp in joins2:
            join = (jt, [0, 2], jp)
            yield spec([(0, 1), (0, 2), (0, 1), (0, 2)], [(i, 0) for i in range(4)], [join] + g, f"F7:H:{jt}:first")
            yield spec([(0, 1), (0, 2), (0, 1), (0, 2)], [(i, 0) for i in range(4)], g + [join], f"F7:H:{jt}:last")
        for jt, jp in joins3:
            join = (jt, [0, 2, 4], jp)
            last = (0, 1) if jt in BOOL_ONLY else (0, 2)  # boolean-only types keep boolean domains (contract)
            yield spec([(0, 1), (0, 2), (0, 1), (0, 2), last], [(i, 0) for i in range(5)], g + [join], f"F7:H3:{jt}")
    # pigeonhole gadgets (binary alldifferent), joined by one-sided constraints on the two x
    ph = lambda x, a, c: [("alldifferent", [x, a], ()), ("alldifferent", [x, c], ()), ("alldifferent", [a, c], ())]
    for jt, jp in [("affine_leq", (1, 1, 3)), ("affine_geq", (1, 1, 4)), ("affine_leq", (1, -1, 0)), ("max_leq", ()), ("min_geq", ()),
                   ("exactly_eq", (2, 1)), ("exactly_eq", (1, 1)), ("alldifferent", ()), ("affine_eq", (1, -1, 0))]:
        cons = [(jt, [0, 3], jp)] + ph(0, 1, 2) + ph(3, 4, 5)
        yield spec([(1, 2), (0, 1), (0, 1), (1, 2), (0, 1), (0, 1)], [(i, 0) for i in range(6)], cons, f"F7:PH:{jt}")
    # one gadget, P on (b, w) itself and on (b, free)
    for m in (False, True):
        for jt, jp in joins2:
            free = (0, 1) if jt in BOOL_ONLY else (0, 2)
            yield spec([(0, 1), (0, 2), free], [(i, 0) for i in range(3)], gadget(0, 1, m) + [(jt, [0, 2], jp)], f"F7:H1:{jt}")


ALL = ("F1", "F2", "F3", "F4", "F5", "F6", "F7")


def universe(tier: str, families=ALL, max_assignments=4096) -> List[Dict]:
    out, seen = [], set()
    gens = {"F1": f1, "F2": f2, "F3": f3, "F4": f4, "F5": f5, "F6": f6, "F7": f7}
    for fam in families:
        for s in gens[fam](tier):
            if n_assignments(s) > max_assignments and not s["tag"].startswith("F3"):
                continue
            k = key(s)
            if k in seen:
                continue
            seen.add(k)
            out.append(s)
    return out
