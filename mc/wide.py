"""
PropMC-wide: filtering calls on boxes whose bounds come from an alphabet with large gaps (0, 1, 2, 65535, 65536, 65537,
70000, -70000 ...), for the constraint types whose exact bounds hull has an independent closed-form / polynomial reference
that works on bounds only (the truth-cube oracle cannot enumerate 65536 values per variable):

  alldifferent   Hall-interval reference (every interval between a min and a max; fixpoint)
  affine_leq/geq exact interval formula for linear inequalities
  affine_eq      one-round interval reference (C14's clause for the linear equality)
  max_leq/min_geq closed form

Serves C05 (no solution lost, no false inconsistency) and C14 (exact hull).  Widths of 2^8 and 2^16 values are where index
types of scratch arrays wrap.
"""
import itertools
import math
from fractions import Fraction

from mc import contracts as K, propmc
from mc.runner import Acc, chunks, pmap

BOUNDS = [-70000, -1, 0, 1, 2, 255, 256, 257, 65535, 65536, 65537, 70000]


def ref_alldifferent(box):
    doms = [list(b) for b in box]
    n = len(doms)
    changed = True
    while changed:
        changed = False
        los = sorted({d[0] for d in doms})
        his = sorted({d[1] for d in doms})
        for a in los:
            for b in his:
                if a > b:
                    continue
                inside = [i for i, d in enumerate(doms) if a <= d[0] and d[1] <= b]
                size = b - a + 1
                if len(inside) > size:
                    return None
                if len(inside) == size:
                    for i, d in enumerate(doms):
                        if i in inside:
                            continue
                        if a <= d[0] <= b:
                            d[0] = b + 1
                            changed = True
                        if a <= d[1] <= b:
                            d[1] = a - 1
                            changed = True
                        if d[0] > d[1]:
                            return None
    return tuple(tuple(d) for d in doms)


def ref_affine_ineq(params, box, sense):
    """sense = +1 for sum <= rhs, -1 for sum >= rhs (rewritten as -sum <= -rhs)."""
    cs = [sense * c for c in params[:-1]]
    rhs = sense * params[-1]
    mins = [min(c * b[0], c * b[1]) for c, b in zip(cs, box)]
    if sum(mins) > rhs:
        return None
    out = []
    for i, (c, b) in enumerate(zip(cs, box)):
        slack = rhs - (sum(mins) - mins[i])  # c * x_i <= slack
        lo, hi = b
        if c > 0:
            hi = min(hi, math.floor(Fraction(slack, c)))
        elif c < 0:
            lo = max(lo, math.ceil(Fraction(slack, c)))
        if lo > hi:
            return None
        out.append((lo, hi))
    return tuple(out)


def ref_max_leq(box):
    xs, y = [list(b) for b in box[:-1]], list(box[-1])
    y[0] = max(y[0], max(x[0] for x in xs))
    for x in xs:
        x[1] = min(x[1], y[1])
        if x[0] > x[1]:
            return None
    if y[0] > y[1]:
        return None
    return tuple(tuple(x) for x in xs) + (tuple(y),)


def ref_min_geq(box):
    xs, y = [list(b) for b in box[:-1]], list(box[-1])
    y[1] = min(y[1], min(x[1] for x in xs))
    for x in xs:
        x[0] = max(x[0], y[0])
        if x[0] > x[1]:
            return None
    if y[0] > y[1]:
        return None
    return tuple(tuple(x) for x in xs) + (tuple(y),)


def reference(typ, params, box):
    if typ == "alldifferent":
        return ref_alldifferent(box)
    if typ == "affine_leq":
        return ref_affine_ineq(params, box, 1)
    if typ == "affine_geq":
        return ref_affine_ineq(params, box, -1)
    if typ == "affine_eq":
        return propmc.affine_eq_one_round(params, box)
    if typ == "max_leq":
        return ref_max_leq(box)
    if typ == "min_geq":
        return ref_min_geq(box)
    raise KeyError(typ)


def wide_intervals(tier):
    bs = BOUNDS if tier == "thorough" else [-70000, 0, 1, 255, 256, 65535, 65536, 70000]
    return [(a, b) for a in bs for b in bs if a <= b]


def instances(tier):
    out = []
    for n in (2, 3):
        out.append(("alldifferent", n, ()))
    for coeffs in ((1, 1), (1, -1), (2, -3), (-1, -1), (1, 0)):
        for rhs in (0, 1, 65536, -70000):
            for typ in ("affine_leq", "affine_geq", "affine_eq"):
                out.append((typ, 2, tuple(coeffs) + (rhs,)))
    out.append(("affine_leq", 3, (1, 1, -1, 0)))
    out.append(("affine_geq", 3, (1, -1, 1, 65536)))
    for typ in ("max_leq", "min_geq"):
        out.append((typ, 2, ()))
        out.append((typ, 3, ()))
    return out


def _unit(u):
    prop, tier, insts = u
    propmc._ensure_watch()
    acc = Acc()
    ivs = wide_intervals(tier)
    for typ, n, params in insts:
        pool = ivs if n <= 2 else ivs[:: (2 if tier == "thorough" else 3)]
        for box in itertools.product(pool, repeat=n):
            acc.c["calls"] += 1
            acc.c["wide_calls"] += 1
            status, out, exc = propmc.safe_call(typ, box, params)
            ref = reference(typ, params, box)
            w = propmc.wit(typ, n, params, box, status, out, reference=ref)
            if exc == "budget":
                if prop == "C04":
                    acc.violation(f"{typ}:wide:spin", w)
                continue
            if exc == "index":
                if prop == "C16":
                    acc.violation(f"{typ}:wide:index-error", w)
                continue
            if exc:
                if prop == "C05":
                    acc.violation(f"{typ}:wide:raises-{exc[4:]}", w)
                continue
            if ref is not None and ref != tuple(box):
                acc.c["nt_wide_pruning_cases"] += 1
            if typ == "affine_eq":
                # the reference is one round (C14 clause); soundness is implied when the output equals it
                if prop == "C14":
                    if status == 0:
                        if ref is not None and _eq_has_solution(params, box):
                            acc.violation(f"{typ}:wide:inconsistency-but-one-round-nonempty", w)
                    elif ref is None:
                        acc.violation(f"{typ}:wide:one-round-empty-not-reported", w)
                    elif tuple(out) != ref:
                        acc.violation(f"{typ}:wide:not-one-round-box", w, "linear equality did not return the one-round interval box (wide domains)")
                continue
            if status == 0:
                if ref is not None:
                    acc.violation(f"{typ}:wide:false-inconsistency", w, "inconsistency reported although the box has a solution (wide domains)")
                continue
            if ref is None:
                if prop == "C14":
                    acc.violation(f"{typ}:wide:empty-not-reported", w)
                continue
            if not propmc.subset(out, box):
                acc.violation(f"{typ}:wide:out-not-subset", w)
            elif not all(o[0] <= r[0] and o[1] >= r[1] for o, r in zip(out, ref)):
                acc.violation(f"{typ}:wide:lost-solution", w, "a value taking part in a solution was removed (wide domains)")
            elif prop == "C14" and tuple(out) != ref:
                acc.violation(f"{typ}:wide:not-the-hull", w, "returned bounds differ from the reference hull (wide domains)")
    return acc


def _eq_has_solution(params, box):
    # cheap exact test for the 2-variable equalities used here
    cs, rhs = params[:-1], params[-1]
    if len(cs) != 2:
        return True
    (a, b), ((x0, x1), (y0, y1)) = cs, box
    if b == 0:
        return a != 0 and rhs % a == 0 and x0 <= rhs // a <= x1 if a != 0 else rhs == 0
    # iterate over the narrower variable if small, else use interval + gcd reasoning (sufficient for the alphabet used)
    g = math.gcd(a, b)
    if rhs % g:
        return False
    width = x1 - x0
    if width <= 200000:
        for x in range(x0, x1 + 1):
            r = rhs - a * x
            if r % b == 0 and y0 <= r // b <= y1:
                return True
        return False
    return True


def run(prop, tier, seed) -> Acc:
    insts = instances(tier)
    return pmap(_unit, [(prop, tier, c) for c in chunks(insts, 3)], seed)
