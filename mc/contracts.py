"""
Contract table (DESIGN 2.7): for every shipped constraint type
  * the relation predicate, written from docs/source/reference.rst and the docstrings, independent of the code,
  * the in-contract scope that is enumerated exhaustively (arity, parameter vectors, value axes),
  * which clauses apply (documented bound-consistent, may answer 'entailed', decisive on permutations only).

An *instance* is (n, params, axes) with axes[i] = (lo, hi): the inclusive value range of position i.
A *box* is a tuple of (lo, hi) intervals inside the axes.
"""
import itertools
from typing import Callable, Dict, Iterator, List, Tuple

import numpy as np

from mc import env  # noqa: F401
from nucs.propagators import propagators as P

Instance = Tuple[int, Tuple[int, ...], Tuple[Tuple[int, int], ...]]


def _is_ncycle(x) -> bool:
    n = len(x)
    if any(v < 0 or v >= n for v in x):
        return False
    seen = 0
    cur = 0
    for _ in range(n):
        cur = x[cur]
        seen += 1
        if cur == 0:
            break
    return cur == 0 and seen == n and len(set(x)) == n


def _is_perm(x) -> bool:
    n = len(x)
    return sorted(x) == list(range(n))


def _lex_leq(x, p) -> bool:
    n = len(x) // 2
    return tuple(x[:n]) <= tuple(x[n:])


def _gcc(x, p) -> bool:
    m = (len(p) - 1) // 2
    v0 = p[0]
    for j in range(m):
        c = sum(1 for v in x if v == v0 + j)
        if not (p[1 + j] <= c <= p[1 + m + j]):
            return False
    # values outside [v0, v0+m-1] are out of contract and never enumerated
    return True


def _relation(x, p) -> bool:
    n = len(x)
    return any(tuple(p[k : k + n]) == tuple(x) for k in range(0, len(p), n))


PRED: Dict[str, Callable] = {
    "and": lambda x, p: x[-1] == (1 if all(v == 1 for v in x[:-1]) else 0),
    "affine_eq": lambda x, p: sum(c * v for c, v in zip(p[:-1], x)) == p[-1],
    "affine_geq": lambda x, p: sum(c * v for c, v in zip(p[:-1], x)) >= p[-1],
    "affine_leq": lambda x, p: sum(c * v for c, v in zip(p[:-1], x)) <= p[-1],
    "alldifferent": lambda x, p: len(set(x)) == len(x),
    "count_eq": lambda x, p: sum(1 for v in x[:-1] if v == p[0]) == x[-1],
    "dummy": lambda x, p: True,
    "element_iv": lambda x, p: 0 <= x[0] < len(p) and p[x[0]] == x[1],
    "element_lic": lambda x, p: 0 <= x[-1] < len(x) - 1 and x[x[-1]] == p[0],
    "element_liv": lambda x, p: 0 <= x[-2] < len(x) - 2 and x[x[-2]] == x[-1],
    "exactly_eq": lambda x, p: sum(1 for v in x if v == p[0]) == p[1],
    "exactly_true": lambda x, p: sum(1 for v in x if v == 1) == p[0],
    "gcc": _gcc,
    "lexicographic_leq": _lex_leq,
    "max_eq": lambda x, p: max(x[:-1]) == x[-1],
    "max_leq": lambda x, p: max(x[:-1]) <= x[-1],
    "min_eq": lambda x, p: min(x[:-1]) == x[-1],
    "min_geq": lambda x, p: min(x[:-1]) >= x[-1],
    "no_sub_cycle": lambda x, p: _is_ncycle(x),
    "relation": _relation,
    "scc": lambda x, p: _is_ncycle(x),
}

ALG: Dict[str, int] = {
    "and": P.ALG_AND,
    "affine_eq": P.ALG_AFFINE_EQ,
    "affine_geq": P.ALG_AFFINE_GEQ,
    "affine_leq": P.ALG_AFFINE_LEQ,
    "alldifferent": P.ALG_ALLDIFFERENT,
    "count_eq": P.ALG_COUNT_EQ,
    "dummy": P.ALG_DUMMY,
    "element_iv": P.ALG_ELEMENT_IV,
    "element_lic": P.ALG_ELEMENT_LIC,
    "element_liv": P.ALG_ELEMENT_LIV,
    "exactly_eq": P.ALG_EXACTLY_EQ,
    "exactly_true": P.ALG_EXACTLY_TRUE,
    "gcc": P.ALG_GCC,
    "lexicographic_leq": P.ALG_LEXICOGRAPHIC_LEQ,
    "max_eq": P.ALG_MAX_EQ,
    "max_leq": P.ALG_MAX_LEQ,
    "min_eq": P.ALG_MIN_EQ,
    "min_geq": P.ALG_MIN_GEQ,
    "no_sub_cycle": P.ALG_NO_SUB_CYCLE,
    "relation": P.ALG_RELATION,
    "scc": P.ALG_SCC,
}
NAME_OF_ALG = {v: k for k, v in ALG.items()}
TYPES = list(PRED.keys())

# documented as implementing bound consistency (docs/source/consistency_propagators.rst; property C14)
BC_EXACT = {
    "and", "affine_geq", "affine_leq", "alldifferent", "count_eq", "element_iv", "element_lic", "element_liv",
    "exactly_eq", "exactly_true", "gcc", "lexicographic_leq", "max_eq", "min_eq", "max_leq", "min_geq", "relation",
}
# decisive on permutations only (documented parts of the circuit model)
PERM_ONLY = {"no_sub_cycle", "scc"}
# translation covariant: relation(x + t) with translated parameters (None = not covariant)
TRANSLATION_COVARIANT = {"alldifferent", "lexicographic_leq", "max_eq", "max_leq", "min_eq", "min_geq", "dummy"}


def is_perm(x) -> bool:
    return _is_perm(x)


def _affine_instances(tier: str) -> Iterator[Instance]:
    for n in (1, 2, 3):
        for coeffs in itertools.product((-2, -1, 0, 1, 2), repeat=n):
            for rhs in range(-3, 4):
                yield n, tuple(coeffs) + (rhs,), ((-1, 2),) * n
    if tier == "thorough":
        for coeffs in itertools.product((-1, 0, 1, 2), repeat=4):
            for rhs in (-2, 0, 1, 3):
                yield 4, tuple(coeffs) + (rhs,), ((-1, 1),) * 4
        for coeffs in itertools.product((-3, 3), repeat=2):
            for rhs in range(-7, 8):
                yield 2, tuple(coeffs) + (rhs,), ((-2, 3),) * 2


def _gcc_instances(tier: str) -> Iterator[Instance]:
    for n in (1, 2, 3) if tier == "quick" else (1, 2, 3, 4):
        for m in (1, 2, 3):
            if n == 4 and m == 1:
                continue
            for v0 in (-1, 0):
                for lows in itertools.product((0, 1), repeat=m):
                    for ups in itertools.product((0, 1, 2), repeat=m):
                        if all(a <= b for a, b in zip(lows, ups)):
                            yield n, (v0,) + tuple(lows) + tuple(ups), ((v0, v0 + m - 1),) * n


def _relation_instances(tier: str) -> Iterator[Instance]:
    for n in (1, 2, 3):
        pool = list(itertools.product((-1, 0, 1), repeat=n))
        kmax = 3
        for k in range(1, kmax + 1):
            for tuples in itertools.combinations_with_replacement(pool, k):
                yield n, tuple(v for t in tuples for v in t), ((-1, 1),) * n
    if tier == "thorough":
        pool = list(itertools.product((0, 1, 2), repeat=2))
        for tuples in itertools.combinations(pool, 4):
            yield 2, tuple(v for t in tuples for v in t), ((-1, 3),) * 2
        # unsorted tuple order / repeated tuples in the middle
        pool = list(itertools.product((0, 1), repeat=2))
        for tuples in itertools.product(pool, repeat=3):
            yield 2, tuple(v for t in tuples for v in t), ((0, 1),) * 2


def _deep_instances(typ: str) -> Iterator[Instance]:
    """Higher arities over two or three values and wider values at low arity (both tiers): cheap because the number of
    boxes is 3^n / 6^n; added after the seeded-change waves showed that most misses were gaps of the explored space."""
    if typ == "and":
        for n in (4, 5):
            yield n, (), ((0, 1),) * n
    elif typ in ("affine_eq", "affine_geq", "affine_leq"):
        for coeffs in itertools.product((-1, 1, 2), repeat=4):
            for rhs in (-1, 0, 2):
                yield 4, tuple(coeffs) + (rhs,), ((0, 1),) * 4
        for coeffs in ((3, -2), (-3, 2), (3, 2), (-3, -2), (2, 3), (3, 3), (-3, -3), (1, -3), (-3, 1), (4, -3)):
            for rhs in range(-5, 6):
                yield 2, tuple(coeffs) + (rhs,), ((-2, 3),) * 2
        for coeffs in ((2, -3, 1), (-2, 3, -1), (3, 2, -2), (1, 1, -3)):
            for rhs in (-4, -1, 0, 1, 5):
                yield 3, tuple(coeffs) + (rhs,), ((-1, 2), (0, 3), (-2, 1))
    elif typ == "alldifferent":
        yield 5, (), ((0, 3),) * 5
        yield 3, (), ((-2, 3),) * 3
        yield 6, (), ((0, 2),) * 6
        yield 4, (), ((0, 1), (0, 4), (2, 4), (1, 3))
    elif typ == "count_eq":
        for a in (0, 1):
            yield 5, (a,), ((0, 1),) * 4 + ((-1, 5),)
            yield 6, (a,), ((0, 1),) * 5 + ((0, 5),)
            yield 3, (a,), ((-2, 2),) * 2 + ((-1, 3),)
    elif typ == "element_iv":
        for l in itertools.product((-1, 0, 1), repeat=4):
            yield 2, tuple(l), ((-1, 4), (-2, 2))
        for l in ((0, 2, 0, 2, 1), (3, 1, 1, 3, 1), (2, 2, 2, 2, 2), (0, 1, 2, 3, 4), (4, 3, 2, 1, 0), (1, 3, 0, 3, 1)):
            yield 2, tuple(l), ((-1, 5), (-1, 5))
    elif typ == "element_lic":
        for c in (0, 1):
            yield 5, (c,), ((0, 1),) * 4 + ((-1, 4),)
            yield 6, (c,), ((0, 1),) * 5 + ((-1, 5),)
        yield 3, (1,), ((-2, 2),) * 2 + ((-1, 2),)
    elif typ == "element_liv":
        yield 5, (), ((0, 1),) * 3 + ((-1, 3), (-1, 2))
        yield 6, (), ((0, 1),) * 4 + ((-1, 4), (0, 1))
        yield 4, (), ((-1, 2),) * 2 + ((-1, 2), (-2, 3))
    elif typ == "exactly_eq":
        for a in (0, 1, 2):
            for c in range(0, 5):
                yield 4, (a, c), ((0, 2),) * 4
        for c in range(0, 6):
            yield 5, (1, c), ((0, 1),) * 5
    elif typ == "exactly_true":
        for n in (5, 6):
            for c in range(0, n + 1):
                yield n, (c,), ((0, 1),) * n
    elif typ == "gcc":
        for n in (4, 5):
            for lows in itertools.product((0, 1, 2), repeat=2):
                for ups in itertools.product((1, 2, 3, 4), repeat=2):
                    if all(a <= b for a, b in zip(lows, ups)):
                        yield n, (0,) + tuple(lows) + tuple(ups), ((0, 1),) * n
        for lows in itertools.product((0, 1), repeat=3):
            for ups in itertools.product((1, 2), repeat=3):
                if all(a <= b for a, b in zip(lows, ups)):
                    yield 4, (-1,) + tuple(lows) + tuple(ups), ((-1, 1),) * 4
        for lows, ups in (((0, 0, 0, 0), (1, 1, 1, 1)), ((1, 0, 0, 1), (1, 2, 2, 1)), ((0, 1, 1, 0), (2, 1, 1, 2)), ((0, 0, 0, 0), (3, 1, 1, 3))):
            yield 3, (0,) + lows + ups, ((0, 3),) * 3
        # 4 variables over 3 values, every (l, u) with 0 <= l <= u, 1 <= u <= 3, l <= 2 (path compression of the stable sets
        # only matters from this size on)
        caps = [(l, u) for u in (1, 2, 3) for l in (0, 1, 2) if l <= u]
        for c in itertools.product(caps, repeat=3):
            yield 4, (0,) + tuple(x[0] for x in c) + tuple(x[1] for x in c), ((0, 2),) * 4
        for ups in ((1, 1, 1, 2), (1, 1, 2, 1), (2, 1, 1, 1), (1, 2, 1, 1), (2, 2, 1, 1), (1, 1, 1, 1)):
            yield 5, (0, 0, 0, 0, 0) + ups, ((0, 3),) * 5
    elif typ == "lexicographic_leq":
        yield 8, (), ((0, 1),) * 8
        yield 4, (), ((0, 3),) * 4
        yield 10, (), ((0, 1),) * 10
    elif typ in ("max_eq", "min_eq", "max_leq", "min_geq"):
        yield 5, (), ((0, 2),) * 5
        yield 6, (), ((0, 1),) * 6
        yield 3, (), ((-2, 3),) * 3
        yield 4, (), ((0, 1), (1, 3), (-1, 2), (-1, 3))
    elif typ == "relation":
        pool = list(itertools.product((0, 1), repeat=4))
        for k in (2, 3):
            for tuples in itertools.combinations(pool[::3] if k == 3 else pool, k):
                yield 4, tuple(v for t in tuples for v in t), ((0, 1),) * 4
        pool = list(itertools.product((0, 1, 2), repeat=2))
        for tuples in itertools.combinations(pool, 4):
            yield 2, tuple(v for t in tuples for v in t), ((-1, 3),) * 2
        # the documentation does not ask for any order of the tuples: every ordering of 2-3 distinct tuples
        pool = list(itertools.product((-1, 0, 1), repeat=2))
        for k in (2, 3):
            for tuples in itertools.permutations(pool, k):
                yield 2, tuple(v for t in tuples for v in t), ((-1, 1),) * 2
        for tuples in itertools.permutations([(v,) for v in (-1, 0, 1, 2)], 3):
            yield 1, tuple(v for t in tuples for v in t), ((-1, 2),)
        pool = [(0, 0, 1), (0, 1, 0), (1, 0, 0), (1, 1, 1), (0, 1, 1)]
        for tuples in itertools.permutations(pool, 3):
            yield 3, tuple(v for t in tuples for v in t), ((0, 1),) * 3
        squares = [(0, 0), (-1, 1), (1, 1), (-2, 4), (2, 4)]  # y = x*x listed by increasing y
        for tuples in (squares, squares[::-1], squares[2:] + squares[:2]):
            yield 2, tuple(v for t in tuples for v in t), ((-2, 2), (0, 4))
    elif typ in ("no_sub_cycle", "scc"):
        yield 5, (), ((0, 4), (0, 4), (1, 3), (0, 2), (2, 4))
        yield 5, (), ((1, 4), (0, 3), (0, 4), (0, 1), (0, 4))


def instances(typ: str, tier: str = "quick") -> Iterator[Instance]:
    seen = set()
    for inst in itertools.chain(_base_instances(typ, tier), _deep_instances(typ)):
        if inst not in seen:
            seen.add(inst)
            yield inst


def _base_instances(typ: str, tier: str = "quick") -> Iterator[Instance]:
    th = tier == "thorough"
    if typ == "and":
        for n in (2, 3, 4) if th else (2, 3):
            yield n, (), ((0, 1),) * n
        if th:
            yield 5, (), ((0, 1),) * 5
    elif typ in ("affine_eq", "affine_geq", "affine_leq"):
        yield from _affine_instances(tier)
    elif typ == "alldifferent":
        for n in (1, 2, 3, 4):
            yield n, (), ((-1, 2),) * n
        if th:
            yield 5, (), ((0, 3),) * 5
            yield 3, (), ((-2, 3),) * 3
    elif typ == "count_eq":
        for k in (1, 2, 3):
            for a in (-1, 0, 1):
                yield k + 1, (a,), ((-1, 1),) * k + ((-1, 3),)
        if th:
            for a in (0, 1):
                yield 5, (a,), ((0, 1),) * 4 + ((-1, 5),)
                yield 3, (a,), ((-2, 2),) * 2 + ((-1, 3),)
    elif typ == "dummy":
        for n in (1, 2):
            yield n, (), ((-1, 1),) * n
    elif typ == "element_iv":
        for k in (1, 2, 3) if not th else (1, 2, 3, 4):
            for l in itertools.product((-1, 0, 1), repeat=k):
                yield 2, tuple(l), ((-1, 3 if k < 4 else 4), (-2, 2))
    elif typ == "element_lic":
        for k in (1, 2, 3):
            for c in (-1, 0, 1):
                yield k + 1, (c,), ((-1, 1),) * k + ((-1, 3),)
        if th:
            for c in (0, 1):
                yield 5, (c,), ((0, 1),) * 4 + ((-1, 4),)
    elif typ == "element_liv":
        for k in (1, 2, 3) if th else (1, 2):
            yield k + 2, (), ((-1, 1),) * k + ((-1, 3), (-2, 2))
    elif typ == "exactly_eq":
        for n in (1, 2, 3):
            for a in (-1, 0, 1):
                for c in range(0, n + 1):
                    yield n, (a, c), ((-1, 2),) * n
        if th:
            for a in (0, 1):
                for c in range(0, 5):
                    yield 4, (a, c), ((-1, 2),) * 4
    elif typ == "exactly_true":
        for n in (1, 2, 3, 4) if not th else (1, 2, 3, 4, 5, 6):
            for c in range(0, n + 1):
                yield n, (c,), ((0, 1),) * n
    elif typ == "gcc":
        yield from _gcc_instances(tier)
    elif typ == "lexicographic_leq":
        for n in (1, 2, 3):
            yield 2 * n, (), ((-1, 1),) * (2 * n)
        if th:
            yield 4, (), ((0, 3),) * 4
            yield 8, (), ((0, 1),) * 8
    elif typ in ("max_eq", "min_eq", "max_leq", "min_geq"):
        for k in (1, 2, 3):
            yield k + 1, (), ((-1, 2),) * (k + 1)
        if th:
            yield 5, (), ((0, 2),) * 5
            yield 3, (), ((-2, 3),) * 3
    elif typ == "relation":
        yield from _relation_instances(tier)
    elif typ in ("no_sub_cycle", "scc"):
        for n in (2, 3, 4) if not th else (2, 3, 4, 5):
            yield n, (), ((0, n - 1),) * n
    else:
        raise KeyError(typ)


def ground_instances(typ: str, tier: str = "quick") -> Iterator[Tuple[int, Tuple[int, ...], Tuple[Tuple[int, int], ...], str]]:
    """Larger arities than the box enumeration can afford, ground tuples only (C06): (n, params, axes, 'all' | 'perms')."""
    th = tier == "thorough"
    if typ == "and":
        for n in (4, 5, 6, 7):
            yield n, (), ((0, 1),) * n, "all"
    elif typ in ("affine_eq", "affine_geq", "affine_leq"):
        for coeffs in itertools.product((-1, 0, 2), repeat=4):
            for rhs in (-1, 0, 3):
                yield 4, tuple(coeffs) + (rhs,), ((-1, 1),) * 4, "all"
        for coeffs in itertools.product((-1, 1), repeat=5):
            yield 5, tuple(coeffs) + (1,), ((-1, 1),) * 5, "all"
        yield 6, (1, -2, 3, -1, 2, 1, 2), ((0, 2),) * 6, "all"
    elif typ == "alldifferent":
        for n in (5, 6):
            yield n, (), ((0, n),) * n, "all"
        yield 7, (), ((0, 6),) * 7, "perms"
    elif typ == "count_eq":
        for k in (4, 5):
            for a in (0, 1):
                yield k + 1, (a,), ((0, 2),) * k + ((0, k),), "all"
    elif typ == "element_iv":
        for k in (4, 5):
            for l in itertools.product((0, 1, 2), repeat=k):
                yield 2, tuple(l), ((-1, k), (-1, 3)), "all"
    elif typ == "element_lic":
        for k in (4, 5):
            for c in (0, 1):
                yield k + 1, (c,), ((0, 2),) * k + ((-1, k),), "all"
    elif typ == "element_liv":
        for k in (3, 4, 5):
            yield k + 2, (), ((0, 2),) * k + ((-1, k), (0, 2)), "all"
    elif typ == "exactly_eq":
        for n in (4, 5, 6):
            for a in (0, 1):
                for c in range(0, n + 1):
                    yield n, (a, c), ((0, 2),) * n, "all"
    elif typ == "exactly_true":
        for n in (7, 8, 9):
            for c in range(0, n + 1):
                yield n, (c,), ((0, 1),) * n, "all"
    elif typ == "gcc":
        for n in (4, 5):
            for lows in itertools.product((0, 1), repeat=3):
                for ups in itertools.product((1, 2, 3), repeat=3):
                    if all(a <= b for a, b in zip(lows, ups)):
                        yield n, (0,) + tuple(lows) + tuple(ups), ((0, 2),) * n, "all"
    elif typ == "lexicographic_leq":
        yield 8, (), ((0, 2),) * 8, "all"
        yield 10, (), ((0, 1),) * 10, "all"
    elif typ in ("max_eq", "min_eq", "max_leq", "min_geq"):
        for k in (4, 5, 6):
            yield k + 1, (), ((0, 2),) * (k + 1), "all"
    elif typ == "relation":
        pool = list(itertools.product((0, 1), repeat=4))
        for tuples in itertools.combinations(pool, 2):
            yield 4, tuple(v for t in tuples for v in t), ((0, 1),) * 4, "all"
        pool = list(itertools.product((0, 1, 2), repeat=2))
        for tuples in itertools.combinations(pool, 5):
            yield 2, tuple(v for t in tuples for v in t), ((-1, 3),) * 2, "all"
    elif typ in ("no_sub_cycle", "scc"):
        for n in (5, 6):
            yield n, (), ((0, n - 1),) * n, "all"
        for n in (7, 8) + ((9,) if th else ()):
            yield n, (), ((0, n - 1),) * n, "perms"
    elif typ == "dummy":
        yield 3, (), ((0, 1),) * 3, "all"


def intervals(lo: int, hi: int) -> List[Tuple[int, int]]:
    return [(a, b) for a in range(lo, hi + 1) for b in range(a, hi + 1)]


def boxes(axes) -> Iterator[Tuple[Tuple[int, int], ...]]:
    return itertools.product(*[intervals(lo, hi) for lo, hi in axes])


def n_boxes(axes) -> int:
    r = 1
    for lo, hi in axes:
        k = hi - lo + 1
        r *= k * (k + 1) // 2
    return r


class Cube:
    """Truth table of one instance over its value cube, with hull / emptiness queries for boxes."""

    def __init__(self, typ: str, n: int, params, axes):
        self.typ, self.n, self.params, self.axes = typ, n, tuple(params), tuple(axes)
        pred = PRED[typ]
        shape = tuple(hi - lo + 1 for lo, hi in axes)
        t = np.zeros(shape, dtype=bool)
        ranges = [range(lo, hi + 1) for lo, hi in axes]
        flat = t.reshape(-1)
        for k, x in enumerate(itertools.product(*ranges)):
            if pred(x, self.params):
                flat[k] = True
        self.t = t

    def sub(self, box):
        sl = tuple(slice(b[0] - a[0], b[1] - a[0] + 1) for a, b in zip(self.axes, box))
        return self.t[sl]

    def hull(self, box):
        """None if no tuple of the box satisfies, else the per-variable (min, max) over the satisfying tuples."""
        s = self.sub(box)
        if not s.any():
            return None
        out = []
        for i in range(self.n):
            other = tuple(j for j in range(self.n) if j != i)
            proj = s.any(axis=other) if other else s
            idx = np.flatnonzero(proj)
            out.append((int(idx[0]) + box[i][0], int(idx[-1]) + box[i][0]))
        return tuple(out)

    def all_true(self, box) -> bool:
        s = self.sub(box)
        return bool(s.all())

    def any_true(self, box) -> bool:
        return bool(self.sub(box).any())

    def holds(self, x) -> bool:
        return bool(self.t[tuple(v - a[0] for v, a in zip(x, self.axes))])


def call(typ: str, box, params):
    """One real filtering call on a fresh int32 copy. Returns (status, out_box)."""
    dom = np.array(box, dtype=np.int32).reshape((len(box), 2))
    par = np.array(params, dtype=np.int32)
    status = P.COMPUTE_DOMAINS_FCTS[ALG[typ]](dom, par)
    return int(status), tuple((int(a), int(b)) for a, b in dom)
