"""Worker for C20: runs shipped models (compiled or interpreted process) and validates every solution with a
definition-level validator written from the problem statements (CSPLib), not from the models.
python -m mc.shipworker '<json list of cases>'   case = [model, params, options]; prints 'CASE <json>' per case."""
import itertools
import json
import math
import sys

from mc import env  # noqa


# ---- definition-level validators (independent of the models) ----------------------------------------------------------

def v_queens(n, q):
    return sorted(q) == list(range(n)) and all(abs(q[i] - q[j]) != j - i for i in range(n) for j in range(i + 1, n))


def v_latin(n, cells, colors=None):
    colors = colors or list(range(n))
    rows = [cells[i * n:(i + 1) * n] for i in range(n)]
    return all(sorted(r) == sorted(colors) for r in rows) and all(sorted(rows[i][j] for i in range(n)) == sorted(colors) for j in range(n))


def v_quasigroup5(n, cells):
    if not v_latin(n, cells):
        return False
    t = [cells[i * n:(i + 1) * n] for i in range(n)]
    if any(t[i][i] != i for i in range(n)):
        return False
    return all(t[t[t[b][a]][b]][b] == a for a in range(n) for b in range(n))


def v_idempotent_latin(n, cells):
    return v_latin(n, cells) and all(cells[i * n + i] == i for i in range(n))


def count_idempotent_latin(n):
    """Brute force: row by row, permutations with the diagonal fixed and no column clash."""
    rows_ok = [[p for p in itertools.permutations(range(n)) if p[i] == i] for i in range(n)]

    def rec(i, cols):
        if i == n:
            return 1
        total = 0
        for p in rows_ok[i]:
            if all(p[j] not in cols[j] for j in range(n)):
                total += rec(i + 1, [cols[j] | {p[j]} for j in range(n)])
        return total

    return rec(0, [set() for _ in range(n)])


def v_magic_square(n, cells):
    if sorted(cells) != list(range(n * n)):
        return False
    m = (n * n - 1) * n // 2
    t = [cells[i * n:(i + 1) * n] for i in range(n)]
    return (all(sum(r) == m for r in t) and all(sum(t[i][j] for i in range(n)) == m for j in range(n))
            and sum(t[i][i] for i in range(n)) == m and sum(t[i][n - 1 - i] for i in range(n)) == m)


def v_magic_sequence(n, x):
    return all(x[i] == sum(1 for v in x if v == i) for i in range(n))


def v_golomb(n, dists):
    # dists indexed by pairs (i<j) in lexicographic order; marks m_0 = 0, m_j = dist(0,j)
    idx = {}
    k = 0
    for i in range(n - 1):
        for j in range(i + 1, n):
            idx[(i, j)] = k
            k += 1
    marks = [0] + [dists[idx[(0, j)]] for j in range(1, n)]
    if any(marks[j] <= marks[j - 1] for j in range(1, n)):
        return False
    ds = [marks[j] - marks[i] for i in range(n) for j in range(i + 1, n)]
    return len(set(ds)) == len(ds) and all(dists[idx[(i, j)]] == marks[j] - marks[i] for (i, j) in idx)


def v_bibd(v, b, r, k, l, cells):
    m = [cells[i * b:(i + 1) * b] for i in range(v)]
    return (all(c in (0, 1) for c in cells[: v * b]) and all(sum(row) == r for row in m) and all(sum(m[i][j] for i in range(v)) == k for j in range(b))
            and all(sum(a * c for a, c in zip(m[i1], m[i2])) == l for i1 in range(v) for i2 in range(i1 + 1, v)))


def v_schur(n, x):
    color = []
    for i in range(n):
        trio = x[3 * i:3 * i + 3]
        if sorted(trio) != [0, 0, 1]:
            return False
        color.append(trio.index(1))
    return all(not (a + b == c and color[a - 1] == color[b - 1] == color[c - 1]) for a in range(1, n + 1) for b in range(1, n + 1) for c in range(1, n + 1))


def count_schur(n):
    cnt = 0
    for col in itertools.product(range(3), repeat=n):
        ok = True
        for a in range(1, n + 1):
            for b in range(a, n + 1):
                c = a + b
                if c <= n and col[a - 1] == col[b - 1] == col[c - 1]:
                    ok = False
                    break
            if not ok:
                break
        cnt += ok
    return cnt


def v_sts(n, x):
    periods, weeks = n // 2, n - 1
    def team(p, w, s):
        return x[p * (weeks * 2) + w * 2 + s]
    for w in range(weeks):
        if sorted(team(p, w, s) for p in range(periods) for s in range(2)) != list(range(n)):
            return False
    for p in range(periods):
        ts = [team(p, w, s) for w in range(weeks) for s in range(2)]
        if any(ts.count(t) > 2 for t in range(n)):
            return False
    games = sorted(tuple(sorted((team(p, w, 0), team(p, w, 1)))) for p in range(periods) for w in range(weeks))
    return games == sorted((i, j) for i in range(n) for j in range(i + 1, n))


def v_circuit(n, s):
    seen, cur = 0, 0
    for _ in range(n):
        cur = s[cur]
        seen += 1
        if cur == 0:
            break
    return sorted(s) == list(range(n)) and cur == 0 and seen == n


def v_sudoku(givens, cells):
    t = [cells[i * 9:(i + 1) * 9] for i in range(9)]
    ok = all(sorted(r) == list(range(1, 10)) for r in t) and all(sorted(t[i][j] for i in range(9)) == list(range(1, 10)) for j in range(9))
    ok = ok and all(sorted(t[3 * a + i][3 * b + j] for i in range(3) for j in range(3)) == list(range(1, 10)) for a in range(3) for b in range(3))
    return ok and all(g == 0 or g not in range(1, 10) or t[i][j] == g for i, row in enumerate(givens) for j, g in enumerate(row))


def v_donald(s):
    A, B, D, E, G, L, N, O, R, T = s
    num = lambda ds: int("".join(map(str, ds)))  # noqa
    return len(set(s)) == 10 and num([D, O, N, A, L, D]) + num([G, E, R, A, L, D]) == num([R, O, B, E, R, T])


ALPHA_WORDS = {"BALLET": 45, "CELLO": 43, "CONCERT": 74, "FLUTE": 30, "FUGUE": 50, "GLEE": 66, "JAZZ": 58, "LYRE": 47, "OBOE": 53,
               "OPERA": 65, "POLKA": 59, "QUARTET": 50, "SAXOPHONE": 134, "SCALE": 51, "SOLO": 37, "SONG": 61, "SOPRANO": 82,
               "THEME": 72, "VIOLIN": 100, "WALTZ": 34}


def v_alpha(s):
    val = {chr(ord("A") + i): s[i] for i in range(26)}
    return sorted(s[:26]) == list(range(1, 27)) and all(sum(val[c] for c in w) == t for w, t in ALPHA_WORDS.items())


# ---- running ----------------------------------------------------------------------------------------------------------

CFG = {"bc": (0, 0, 0), "smallest-mid": (0, 1, 3), "shaving": (1, 0, 0), "greatest-max": (0, 2, 1), "split": (0, 1, 2)}


def solver_for(problem, cfg, **kw):
    from nucs.solvers.backtrack_solver import BacktrackSolver

    c, v, d = CFG[cfg]
    return BacktrackSolver(problem, consistency_alg_idx=c, var_heuristic_idx=v, dom_heuristic_idx=d, log_level="ERROR", **kw)


def enumerate_all(problem, cfg, procs, limit=None, split_dom=0, **kw):
    if procs <= 1:
        it = solver_for(problem, cfg, **kw).solve()
    else:
        from nucs.solvers.multiprocessing_solver import MultiprocessingSolver

        it = MultiprocessingSolver([solver_for(p, cfg, **kw) for p in problem.split(procs, split_dom)], log_level="ERROR").solve()
    out = []
    for s in it:
        out.append([int(v) for v in s])
        if limit and len(out) >= limit:
            break
    return out


def run_case(case):
    model, params, opt = case
    cfg, procs, sym = opt.get("cfg", "bc"), opt.get("procs", 1), opt.get("sym", True)
    r = {"case": case}
    try:
        if model == "queens":
            from nucs.examples.queens.queens_problem import QueensProblem
            n = params[0]
            sols = enumerate_all(QueensProblem(n), cfg, procs)
            r.update(count=len(sols), invalid=sum(1 for s in sols if not v_queens(n, s[:n])), distinct=len({tuple(s[:n]) for s in sols}))
        elif model in ("latin", "latin_rc"):
            from nucs.problems.latin_square_problem import LatinSquareProblem, LatinSquareRCProblem
            n = params[0]
            p = LatinSquareProblem(list(range(n))) if model == "latin" else LatinSquareRCProblem(n)
            sols = enumerate_all(p, cfg, procs)
            r.update(count=len(sols), invalid=sum(1 for s in sols if not v_latin(n, s[:n * n])), distinct=len({tuple(s[:n * n]) for s in sols}))
        elif model == "quasigroup5":
            from nucs.examples.quasigroup.quasigroup_problem import Quasigroup5Problem
            n = params[0]
            sols = enumerate_all(Quasigroup5Problem(n, sym), cfg, procs, decision_domains=list(range(n * n)) if opt.get("decide_colors") else None)
            r.update(count=len(sols), invalid=sum(1 for s in sols if not v_quasigroup5(n, s[:n * n])), distinct=len({tuple(s[:n * n]) for s in sols}))
        elif model == "quasigroup":
            # the reusable base model (idempotent quasigroup, CSPLib 003), which the QG5 example specialises
            from nucs.examples.quasigroup.quasigroup_problem import QuasigroupProblem
            n = params[0]
            sols = enumerate_all(QuasigroupProblem(n, sym), cfg, procs)
            r.update(count=len(sols), invalid=sum(1 for s in sols if not v_idempotent_latin(n, s[:n * n])), distinct=len({tuple(s[:n * n]) for s in sols}))
            if not sym:
                r["reference_count"] = count_idempotent_latin(n)
        elif model == "magic_square":
            from nucs.examples.magic_square.magic_square_problem import MagicSquareProblem
            n = params[0]
            sols = enumerate_all(MagicSquareProblem(n, sym), cfg, procs)
            r.update(count=len(sols), invalid=sum(1 for s in sols if not v_magic_square(n, s[:n * n])), distinct=len({tuple(s) for s in sols}))
        elif model == "magic_sequence":
            from nucs.examples.magic_sequence.magic_sequence_problem import MagicSequenceProblem
            n = params[0]
            sols = enumerate_all(MagicSequenceProblem(n), cfg, procs)
            r.update(count=len(sols), invalid=sum(1 for s in sols if not v_magic_sequence(n, s[:n])), distinct=len({tuple(s) for s in sols}))
        elif model == "golomb":
            from nucs.examples.golomb.golomb_problem import GolombProblem, golomb_consistency_algorithm
            from nucs.solvers.backtrack_solver import BacktrackSolver
            from nucs.solvers.consistency_algorithms import register_consistency_algorithm
            n = params[0]
            p = GolombProblem(n, sym)
            if opt.get("custom_alg"):
                ca = register_consistency_algorithm(golomb_consistency_algorithm)
                s = BacktrackSolver(p, consistency_alg_idx=ca, log_level="ERROR").minimize(p.length_idx)
            else:
                s = solver_for(p, cfg).minimize(p.length_idx)
            r.update(optimum=None if s is None else int(s[p.length_idx]), invalid=0 if s is not None and v_golomb(n, [int(v) for v in s]) else 1)
        elif model == "golomb_accept":
            # a known optimal ruler (literature) is a solution of the model: fix the marks, the solver must complete it
            from nucs.examples.golomb.golomb_problem import GolombProblem, index
            marks = params[0]
            n = len(marks)
            p = GolombProblem(n, sym)
            for j in range(1, n):
                p.shr_domains_lst[index(n, 0, j)] = [marks[j], marks[j]]
            sols = enumerate_all(p, cfg, 1, limit=2)
            r.update(count=len(sols), invalid=sum(1 for s in sols if not v_golomb(n, s)), distinct=len({tuple(s) for s in sols}))
        elif model == "golomb_enum":
            # every ruler with n marks and length <= L, against a brute-force enumeration
            from nucs.examples.golomb.golomb_problem import GolombProblem
            n, L = params
            p = GolombProblem(n, sym)
            p.shr_domains_lst[p.length_idx] = [p.shr_domains_lst[p.length_idx][0], L]
            if opt.get("custom_alg"):
                # the consistency algorithm shipped with the example, registered through the public API, used for enumeration
                from nucs.examples.golomb.golomb_problem import golomb_consistency_algorithm
                from nucs.solvers.backtrack_solver import BacktrackSolver
                from nucs.solvers.consistency_algorithms import register_consistency_algorithm
                ca = register_consistency_algorithm(golomb_consistency_algorithm)
                sols = [[int(v) for v in x] for x in BacktrackSolver(p, consistency_alg_idx=ca, log_level="ERROR").solve()]
            else:
                sols = enumerate_all(p, cfg, procs)
            r.update(count=len(sols), invalid=sum(1 for s in sols if not v_golomb(n, s)), distinct=len({tuple(s) for s in sols}))
            ref = 0
            for rest in itertools.combinations(range(1, L + 1), n - 1):
                m = (0,) + rest
                ds = [m[j] - m[i] for i in range(n) for j in range(i + 1, n)]
                if len(set(ds)) == len(ds) and (not sym or m[1] - m[0] < m[-1] - m[-2]):
                    ref += 1
            r["reference_count"] = ref
        elif model == "bibd":
            from nucs.examples.bibd.bibd_problem import BIBDProblem
            v, b, rr, k, l = params
            sols = enumerate_all(BIBDProblem(v, b, rr, k, l, sym), cfg, procs, limit=opt.get("limit"))
            r.update(count=len(sols), invalid=sum(1 for s in sols if not v_bibd(v, b, rr, k, l, s)), distinct=len({tuple(s[:v * b]) for s in sols}))
        elif model == "schur":
            from nucs.examples.schur_lemma.schur_lemma_problem import SchurLemmaProblem
            n = params[0]
            sols = enumerate_all(SchurLemmaProblem(n, sym), cfg, procs)
            r.update(count=len(sols), invalid=sum(1 for s in sols if not v_schur(n, s)), distinct=len({tuple(s) for s in sols}))
            if not sym and n <= 11:
                r["reference_count"] = count_schur(n)
        elif model == "sts":
            from nucs.examples.sports_tournament_scheduling.sports_tournament_scheduling_problem import SportsTournamentSchedulingProblem
            n = params[0]
            p = SportsTournamentSchedulingProblem(n, sym)
            sols = enumerate_all(p, opt.get("cfg", "smallest-mid") if False else cfg, procs, limit=opt.get("limit"), decision_domains=list(range(p.team_var_nb)))
            r.update(count=len(sols), invalid=sum(1 for s in sols if not v_sts(n, s)), distinct=len({tuple(s[:p.team_var_nb]) for s in sols}))
        elif model == "circuit":
            from nucs.problems.circuit_problem import CircuitProblem
            n = params[0]
            sols = enumerate_all(CircuitProblem(n), cfg, procs)
            r.update(count=len(sols), invalid=sum(1 for s in sols if not v_circuit(n, s[:n])), distinct=len({tuple(s) for s in sols}))
        elif model == "knapsack":
            from nucs.examples.knapsack.knapsack_problem import KnapsackProblem
            weights, volumes, cap = params
            p = KnapsackProblem(weights, volumes, cap)
            s = solver_for(p, cfg).maximize(p.weight)
            best = max(sum(w for w, t in zip(weights, pick) if t) for pick in itertools.product((0, 1), repeat=len(weights))
                       if sum(v for v, t in zip(volumes, pick) if t) <= cap)
            ok = s is not None and sum(v for v, t in zip(volumes, s[:len(weights)]) if t) <= cap and sum(w for w, t in zip(weights, s[:len(weights)]) if t) == int(s[p.weight])
            r.update(optimum=None if s is None else int(s[p.weight]), reference_optimum=best, invalid=0 if ok else 1)
        elif model == "tsp":
            from nucs.examples.tsp.tsp_problem import TSPProblem
            from nucs.solvers.backtrack_solver import BacktrackSolver
            if params[0] == "GR17":
                from nucs.examples.tsp.tsp_instances import TSP_INSTANCES
                costs = TSP_INSTANCES["GR17"]
                ref = 2085
            else:
                costs = params[0]
                n = len(costs)
                ref = min(sum(costs[a][b] for a, b in zip((0,) + perm, perm + (0,))) for perm in itertools.permutations(range(1, n)))
            n = len(costs)
            p = TSPProblem(costs)
            kw = dict(decision_domains=list(range(n)))
            if opt.get("cost_heuristics"):
                kw.update(var_heuristic_idx=3, var_heuristic_params=costs, dom_heuristic_idx=4, dom_heuristic_params=costs)
            s = BacktrackSolver(p, consistency_alg_idx=CFG[cfg][0], log_level="ERROR", **kw).minimize(p.shr_domain_nb - 1)
            ok = s is not None and v_circuit(n, [int(v) for v in s[:n]]) and sum(costs[i][int(s[i])] for i in range(n)) == int(s[p.shr_domain_nb - 1])
            r.update(optimum=None if s is None else int(s[p.shr_domain_nb - 1]), reference_optimum=ref, invalid=0 if ok else 1)
        elif model == "sudoku":
            from nucs.examples.sudoku.sudoku_problem import SudokuProblem
            givens = params[0]
            sols = enumerate_all(SudokuProblem(givens), cfg, procs, limit=3)
            r.update(count=len(sols), invalid=sum(1 for s in sols if not v_sudoku(givens, s[:81])), distinct=len({tuple(s) for s in sols}))
        elif model == "donald":
            from nucs.examples.donald.donald_problem import DonaldProblem
            sols = enumerate_all(DonaldProblem(), cfg, procs)
            r.update(count=len(sols), invalid=sum(1 for s in sols if not v_donald(s)), distinct=len({tuple(s) for s in sols}))
        elif model == "alpha":
            from nucs.examples.alpha.alpha_problem import AlphaProblem
            sols = enumerate_all(AlphaProblem(), cfg, procs, limit=3)
            r.update(count=len(sols), invalid=sum(1 for s in sols if not v_alpha(s)), distinct=len({tuple(s) for s in sols}))
        else:
            r["error"] = "unknown model"
    except BaseException as e:  # noqa
        r["error"] = f"{type(e).__name__}: {e}"[:300]
    return r


if __name__ == "__main__":
    for case in json.loads(sys.argv[1]):
        print("CASE " + json.dumps(run_case(case)), flush=True)
