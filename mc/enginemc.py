"""
EngineMC (DESIGN 2.4): explicit-state search over the real engine.

A state is the tuple of solver arrays; `snapshot`/`restore` copy them, `canon` is exactly the part later transitions
read (stack slices up to the top, queue), so merging equal keys is sound.  Transitions call the real functions
(consistency algorithm, value heuristics + add_propagators as solve_one does, choice_points.backtrack) in the order
solve_one does; the variable choice is left nondeterministic (every open decision domain), which covers every
variable heuristic, shipped or custom.
"""
import itertools
import sys
from collections import Counter

import numpy as np

from mc import contracts as K, solvemc as S, universe as U
from nucs.constants import PROBLEM_BOUND, PROBLEM_INCONSISTENT, PROBLEM_UNBOUND
from nucs.heuristics import heuristics as H
from nucs.propagators import propagators as P
from nucs.solvers import bound_consistency_algorithm as BCA
from nucs.solvers import choice_points as CP
from nucs.solvers import consistency_algorithms as CA
from nucs.solvers.solver import get_solution

sys.setrecursionlimit(20000)
PASS_JUMP_BUDGET = 2_000_000


class Engine:
    def __init__(self, spec, cons="bc", stack=None):
        self.spec = spec
        self.problem = S.build(spec)
        self.solver = S.make_solver(self.problem, spec, (cons, "first", "min", None), stack)
        s, p = self.solver, self.problem
        self.cons_idx = S.CONS[cons]
        self.stack, self.ne, self.du, self.top, self.trig = (s.shr_domains_stack, s.not_entailed_propagators_stack,
                                                             s.dom_update_stack, s.stacks_top, s.triggered_propagators)
        self.stats = s.statistics
        self.decision = [int(d) for d in s.decision_domains]
        self.alg_args = (s.statistics, p.algorithms, p.var_bounds, p.param_bounds, p.dom_indices_arr, p.dom_offsets_arr,
                         p.props_dom_indices, p.props_dom_offsets, p.props_parameters, p.triggers, s.shr_domains_stack,
                         s.not_entailed_propagators_stack, s.dom_update_stack, s.stacks_top, s.triggered_propagators,
                         np.empty(0), s.decision_domains)
        # constraint k of the sorted propagator list -> (type, variables, params)
        self.cons = [(K.NAME_OF_ALG[int(p.algorithms[k])], list(pr[0]), tuple(pr[2])) for k, pr in enumerate(p.propagators)]
        self.cost_params = np.array([[]], dtype=np.int64)
        self.ref = []  # reference frame stack (lock-step model): one (domains, flags) per pending alternative

    # ---- state handling -------------------------------------------------------------------------------------------
    def snapshot(self):
        t = int(self.top[0])
        return (t, self.stack[: t + 1].copy(), self.ne[: t + 1].copy(), self.du[: t + 1].copy(), self.trig.copy(),
                self.stats.copy(), list(self.ref))

    def restore(self, snap):
        t, st, ne, du, trig, stats, ref = snap
        self.ref = list(ref)
        self.top[0] = t
        self.stack[: t + 1] = st
        self.ne[: t + 1] = ne
        self.du[: len(du)] = du
        self.trig[:] = trig
        self.stats[:] = stats

    def canon(self):
        t = int(self.top[0])
        return (t, self.stack[: t + 1].tobytes(), self.ne[: t + 1].tobytes(), self.du[:t].tobytes(), self.trig.tobytes())

    def domains(self, level=None):
        t = int(self.top[0]) if level is None else level
        return [(int(a), int(b)) for a, b in self.stack[t]]

    def var_box(self, level=None):
        doms = self.domains(level)
        return [(doms[d][0] + off, doms[d][1] + off) for d, off in self.spec["vars"]]

    def flags(self, level=None):
        t = int(self.top[0]) if level is None else level
        return [bool(x) for x in self.ne[t]]

    # ---- transitions (real code) ----------------------------------------------------------------------------------
    def propagate(self, cons_idx=None):
        from mc import budget

        S.ensure_watch()
        budget.start(PASS_JUMP_BUDGET)  # a pass that does not terminate is C04's subject; here it only must not hang the check
        try:
            return int(CA.CONSISTENCY_ALG_FCTS[self.cons_idx if cons_idx is None else cons_idx](*self.alg_args))
        finally:
            budget.stop()

    def open_decisions(self):
        t = int(self.top[0])
        return [d for d in self.decision if self.stack[t, d, 0] < self.stack[t, d, 1]]

    def branch(self, d, h, params=None):
        events = H.DOM_HEURISTIC_FCTS[S.DOMH[h]](self.cost_params if params is None else params, self.stack, self.ne, self.du,
                                                 self.top, d)
        P.add_propagators(self.trig, self.ne[int(self.top[0])], self.problem.triggers, d, events)
        return int(events)

    def backtrack(self):
        return bool(CP.backtrack(self.stats, self.ne, self.du, self.top, self.trig, self.problem.triggers))

    def solution(self):
        p = self.problem
        return tuple(int(v) for v in get_solution(self.stack, self.top, p.dom_indices_arr, p.dom_offsets_arr))

    # ---- oracles --------------------------------------------------------------------------------------------------
    def box_solutions(self, sols, level=None):
        """The brute-force solutions of the problem lying inside the current box."""
        vb = self.var_box(level)
        return [x for x in sols if all(lo <= v <= hi for v, (lo, hi) in zip(x, vb))]

    def constraint_all_true(self, k, level=None):
        """Every tuple of the current box of constraint k satisfies its relation (brute force over the box)."""
        typ, vs, params = self.cons[k]
        vb = self.var_box(level)
        pred = K.PRED[typ]
        # variables may repeat: enumerate distinct variables, build the tuple
        distinct = sorted(set(vs))
        # shared domains link variables: enumerate shared-domain values instead
        doms = self.domains(level)
        used_doms = sorted({self.spec["vars"][v][0] for v in distinct})
        for dv in itertools.product(*[range(doms[d][0], doms[d][1] + 1) for d in used_doms]):
            val = dict(zip(used_doms, dv))
            x = tuple(val[self.spec["vars"][v][0]] + self.spec["vars"][v][1] for v in vs)
            if not pred(x, params):
                return False, x
        return True, None


class Monitor:
    """Per-property hooks; every hook receives the engine in the state reached."""

    def on_node(self, eng, acc):  # state in which a propagation pass starts
        pass

    def after_propagate(self, eng, acc, before_snap, status):
        pass

    def after_branch(self, eng, acc, before_snap, d, h, events):
        pass

    def after_backtrack(self, eng, acc, before_snap, ok):
        pass

    def on_solution(self, eng, acc, x):
        pass


def explore(eng: Engine, acc, monitor: Monitor, heuristics=("min",), max_states=200000, orders="all"):
    """Memoised exploration of every execution; returns the sorted tuple of solutions yielded from the root."""
    memo = {}
    ctr = {"states": 0, "transitions": 0, "capped": False, "maxdepth": 0}

    def visit(depth):
        key = eng.canon()
        if key in memo:
            return memo[key]
        if ctr["states"] >= max_states:
            ctr["capped"] = True
            return ()
        ctr["states"] += 1
        ctr["maxdepth"] = max(ctr["maxdepth"], int(eng.top[0]))
        monitor.on_node(eng, acc)
        memo[key] = ()  # cycles are impossible in a terminating search; a revisit on the path is reported by C04
        node = eng.snapshot()
        try:
            status = eng.propagate()
        except Exception as e:  # noqa  (BudgetExceeded / IndexError ...: judged by C04 / C16, reported here as a cap)
            ctr["capped"] = True
            acc.caps.append(f"exploration of {eng.spec.get('tag')} stopped: {type(e).__name__} in a propagation pass")
            eng.restore(node)
            return ()
        ctr["transitions"] += 1
        monitor.after_propagate(eng, acc, node, status)
        after = eng.snapshot()
        result = None
        if status == PROBLEM_BOUND:
            x = eng.solution()
            monitor.on_solution(eng, acc, x)
            ok = eng.backtrack()
            ctr["transitions"] += 1
            monitor.after_backtrack(eng, acc, after, ok)
            rest = visit(depth + 1) if ok else ()
            result = tuple(sorted((x,) + rest))
        elif status == PROBLEM_INCONSISTENT:
            ok = eng.backtrack()
            ctr["transitions"] += 1
            monitor.after_backtrack(eng, acc, after, ok)
            result = visit(depth + 1) if ok else ()
        elif int(eng.top[0]) + 2 >= len(eng.stack):
            # solve_one refuses to branch when fewer than two levels are left (RuntimeError): the execution ends here
            ctr["refused"] = ctr.get("refused", 0) + 1
            result = ()
        else:
            results = {}
            for d in (eng.open_decisions() if orders == "all" else eng.open_decisions()[:1]):
                for h in heuristics:
                    eng.restore(after)
                    events = eng.branch(d, h)
                    ctr["transitions"] += 1
                    monitor.after_branch(eng, acc, after, d, h, events)
                    results[(d, h)] = visit(depth + 1)
            if not results:
                acc.violation("engine:unbound-without-open-decision", {"spec": eng.spec, "domains": eng.domains()})
                result = ()
            else:
                vals = set(results.values())
                if len(vals) > 1 and not ctr["capped"] and not ctr.get("refused"):
                    items = sorted(results.items(), key=lambda kv: len(kv[1]))
                    acc.violation("engine:solutions-depend-on-variable-or-value-order",
                                  {"spec": eng.spec, "at_domains": [list(x) for x in _doms_of(after)],
                                   "choice_a": list(items[0][0]), "n_a": len(items[0][1]), "choice_b": list(items[-1][0]),
                                   "n_b": len(items[-1][1])},
                                  "two branching choices in the same state lead to different solution multisets")
                result = next(iter(results.values()))
        memo[key] = result
        return result

    root = visit(0)
    return root, ctr


def _doms_of(snap):
    t, st = snap[0], snap[1]
    return [(int(a), int(b)) for a, b in st[t]]
