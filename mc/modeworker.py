"""
Worker for C15 (and the compiled-mode parts of other checks).  Runs in a fresh process, interpreted or compiled
(MC_COMPILED=1), and prints one JSON document on stdout.

  python -m mc.modeworker slice <tier> <shard> <nshards>     every (problem, configuration) of the slice, twice
  python -m mc.modeworker histories <tier> <shard> <nshards> every history (forked from this pristine process) + probe
  python -m mc.modeworker warm                               compile the engine into the cache
"""
import hashlib
import json
import multiprocessing as mp
import sys

from mc import env  # noqa


def digest(o) -> str:
    return hashlib.sha1(json.dumps(o, sort_keys=True).encode()).hexdigest()[:16]


def slice_specs(tier):
    from mc import universe as U

    specs = U.universe("quick", ("F1", "F2", "F3", "F4", "F5", "F7"))
    keep = []
    step = {"F1": 9, "F2": 5, "F5": 5, "F7": 4} if tier == "quick" else {"F1": 2, "F2": 1, "F5": 1, "F7": 1}
    count = {}
    for s in specs:
        fam = s["tag"][:2]
        if fam in ("F3", "F4"):
            if U.n_assignments(s) <= 3000:
                keep.append(s)
            continue
        count[fam] = count.get(fam, 0) + 1
        if count[fam] % step[fam] == 0:
            keep.append(s)
    return keep


def slice_cfgs(spec, tier):
    from mc import solvemc as S

    cfgs = S.configs_for(spec, "quick")
    return cfgs if tier == "thorough" else [cfgs[0], cfgs[3], cfgs[5]] + ([c for c in cfgs if c[3]] [:1])


def run_case(spec, cfg, mode="enumerate", var=None, stack=None):
    from mc import solvemc as S

    o = S.run(spec, cfg, mode, var, jump_budget=1 << 60, stack=stack)
    return {"solutions": [list(x) for x in o.solutions], "result": None if o.result is None else list(o.result),
            "stats": o.stats, "abort": o.abort}


def cmd_slice(tier, shard, nshards, order="fwd"):
    from mc import universe as U

    out = {"cases": {}, "inprocess_mismatch": []}
    specs = slice_specs(tier)
    indexed = list(enumerate(specs))
    if order == "rev":  # same cases, reversed order: every case is preceded by a different history of solver use
        indexed.reverse()
    for i, spec in indexed:
        if i % nshards != shard:
            continue
        nv = len(spec["vars"])
        for cfg in slice_cfgs(spec, tier):
            for mode, var in (("enumerate", None), ("min", nv - 1)):
                if mode == "min" and U.n_assignments(spec) > 3000:
                    continue
                a = run_case(spec, cfg, mode, var)
                b = run_case(spec, cfg, mode, var)
                k = f"{i}|{'/'.join(map(str, cfg))}|{mode}"
                if a != b:
                    out["inprocess_mismatch"].append({"case": k, "spec": spec, "cfg": list(cfg), "mode": mode, "first": a, "second": b})
                out["cases"][k] = [digest(a), len(a["solutions"]), a["abort"]]
        # solver parameters at the ends of their documented ranges: stack heights 16 / 255 / 256
        if i % 7 == 0 or spec["tag"][:2] in ("F3", "F4"):
            for stack in (16, 255, 256):
                for cfg in slice_cfgs(spec, tier)[:2]:
                    a = run_case(spec, cfg, "enumerate", None, stack)
                    k = f"{i}|{'/'.join(map(str, cfg))}|enumerate@stack{stack}"
                    out["cases"][k] = [digest(a), len(a["solutions"]), a["abort"]]
    # searches as deep as / deeper than the stack, at the largest heights (chain x_0 <= x_1 <= ... over booleans or {0,1,2}):
    # both modes must give the same solutions or the same refusal
    if shard == 0:
        for n, dom, stack, heur in ((250, (0, 1), 256, "min"), (258, (0, 1), 256, "min"), (258, (0, 1), 255, "split_low"), (253, (0, 1), 255, "max"),
                                    (128, (0, 2), 256, "mid"), (127, (0, 2), 255, "mid"), (20, (0, 1), 16, "min"), (8, (0, 2), 16, "mid")):
            spec = U.spec([dom] * n, [(i, 0) for i in range(n)], [("affine_leq", [i, i + 1], (1, -1, 0)) for i in range(n - 1)], "deep-chain")
            a = run_case(spec, ("bc", "first", heur, None), "enumerate", None, stack)
            out["cases"][f"deep-chain|{n}|{dom}|{stack}|{heur}"] = [digest(a), len(a["solutions"]), a["abort"]]
    print(json.dumps(out))


# ---- histories -------------------------------------------------------------------------------------------------------

PROBE = {"doms": [[0, 3], [0, 3], [-1, 2], [0, 2]], "vars": [[0, 0], [1, 0], [2, 0], [0, 1], [3, 0]],
         "cons": [["affine_leq", [0, 1, 2], [1, 1, -1, 3]], ["alldifferent", [0, 1, 3], []], ["count_eq", [0, 1, 4], [1]],
                  ["max_eq", [2, 4, 1], []]], "tag": "probe"}
PROB_A = {"doms": [[0, 3]] * 4, "vars": [[i, 0] for i in range(4)] + [[i, i] for i in range(4)] + [[i, -i] for i in range(4)],
          "cons": [["alldifferent", [0, 1, 2, 3], []], ["alldifferent", [4, 5, 6, 7], []], ["alldifferent", [8, 9, 10, 11], []]], "tag": "A"}
PROB_B = {"doms": [[-2, 2], [0, 3], [0, 3]], "vars": [[0, 0], [1, 0], [2, 0], [1, 1]],
          "cons": [["affine_eq", [0, 1, 2], [1, 1, -1, 0]], ["lexicographic_leq", [1, 2, 2, 3], []], ["element_iv", [1, 2], [3, 0, 1, 2]]], "tag": "B"}
# same constraint types and arities as the probe, different parameters (sign patterns, constants)
PROB_V = {"doms": [[0, 3], [0, 3], [-1, 2], [0, 2]], "vars": [[0, 0], [1, 0], [2, 0], [0, 1], [3, 0]],
          "cons": [["affine_leq", [0, 1, 2], [-1, 1, 1, 0]], ["affine_leq", [2, 1, 0], [1, -2, -1, -1]], ["alldifferent", [2, 1, 3], []],
                   ["count_eq", [2, 1, 4], [0]], ["max_eq", [0, 1, 4], []], ["affine_geq", [0, 1, 2], [1, 1, -1, 3]]], "tag": "V"}
OPS = "ABPRGSVLN"
# declaration lists owned by the caller and reused for every problem declared from them (a user who keeps the data of a model in
# module-level lists and builds several problems from them): the fourth part of the probe and history operation L use them
ALIAS_DECL = ([(0, 2), (0, 2)], [0, 1], [0, 0])


def do_probe(shared_problem=None):
    """The fixed probe: three solver uses on the probe problem; returns everything the user can observe."""
    from mc import solvemc as S
    from nucs.solvers.backtrack_solver import BacktrackSolver

    res = {}
    for name, cfg, mode in (("enum", ("bc", "smallest", "mid", None), "enumerate"), ("shave", ("shaving", "first", "split_low", None), "enumerate"),
                            ("min", ("bc", "greatest", "max", None), "min")):
        problem = shared_problem if shared_problem is not None else S.build(PROBE)
        solver = S.make_solver(problem, PROBE, cfg)
        if mode == "enumerate":
            sols = [[int(v) for v in x] for x in solver.solve()]
            res[name] = {"solutions": sols, "stats": solver.get_statistics()}
        else:
            r = solver.minimize(2)
            res[name] = {"result": None if r is None else [int(v) for v in r], "stats": solver.get_statistics()}
    from mc import contracts as K
    from nucs.problems.problem import Problem

    q = Problem(*ALIAS_DECL)
    q.add_propagator(([0, 1], K.ALG["affine_leq"], [1, -1, 0]))
    solver = BacktrackSolver(q, log_level="ERROR")
    res["alias"] = {"solutions": [[int(v) for v in x] for x in solver.solve()], "stats": solver.get_statistics()}
    from mc import custom

    res["custom"] = custom.solve_with("lt")  # a freshly registered user propagator (x0 < x1)
    return res


def problem_view(p):
    return {"doms": [list(map(int, d)) for d in p.shr_domains_lst], "idx": [int(v) for v in p.dom_indices_lst],
            "off": [int(v) for v in p.dom_offsets_lst],
            "props": sorted([[list(map(int, vs)), int(a), list(map(int, ps))] for vs, a, ps in p.propagators])}


def apply_op(op, state):
    from mc import solvemc as S

    if op == "A":
        S.make_solver(S.build(PROB_A), PROB_A, ("bc", "first", "min", None)).find_all()
    elif op == "B":
        S.make_solver(S.build(PROB_B), PROB_B, ("bc", "smallest", "split_low", None)).minimize(0)
    elif op == "P":
        gen = S.make_solver(S.build(PROB_A), PROB_A, ("bc", "greatest", "mid", None)).solve()
        next(gen)
        del gen
    elif op == "R":
        if state.get("problem") is None:
            state["problem"] = S.build(PROBE)
            state["view"] = problem_view(state["problem"])
        sv = S.make_solver(state["problem"], PROBE, ("bc", "first", "max", None))
        it = sv.solve()
        next(it, None)
    elif op == "L":
        # another problem declared from the very list objects the probe's declaration uses, then extended and solved
        from mc import contracts as K
        from nucs.problems.problem import Problem
        from nucs.solvers.backtrack_solver import BacktrackSolver

        q = Problem(*ALIAS_DECL)
        extra = q.add_variable((0, 1))
        q.add_propagator(([0, extra], K.ALG["affine_leq"], [1, -1, 0]))
        BacktrackSolver(q, log_level="ERROR").find_all()
    elif op == "N":
        # a user propagator registered and used earlier whose function has the same __name__ as the probe's (x0 > x1)
        from mc import custom

        custom.solve_with("gt")
    elif op == "V":
        S.make_solver(S.build(PROB_V), PROB_V, ("bc", "smallest", "mid", None)).find_all()
    elif op == "S":
        S.make_solver(S.build(PROB_A), PROB_A, ("shaving", "first", "split_low", None)).find_all()
    elif op == "G":
        from nucs.examples.golomb.golomb_problem import GolombProblem, golomb_consistency_algorithm
        from nucs.heuristics.heuristics import register_dom_heuristic, register_var_heuristic
        from nucs.heuristics.max_value_dom_heuristic import max_value_dom_heuristic
        from nucs.heuristics.smallest_domain_var_heuristic import smallest_domain_var_heuristic
        from nucs.propagators.dummy_propagator import compute_domains_dummy, get_complexity_dummy, get_triggers_dummy
        from nucs.propagators.propagators import register_propagator
        from nucs.solvers.backtrack_solver import BacktrackSolver
        from nucs.solvers.consistency_algorithms import register_consistency_algorithm

        alg = register_propagator(get_triggers_dummy, get_complexity_dummy, compute_domains_dummy)
        vh = register_var_heuristic(smallest_domain_var_heuristic)
        dh = register_dom_heuristic(max_value_dom_heuristic)
        ca = register_consistency_algorithm(golomb_consistency_algorithm)
        p = GolombProblem(4)
        p.add_propagator(([0, 1], alg, []))
        BacktrackSolver(p, consistency_alg_idx=ca, var_heuristic_idx=vh, dom_heuristic_idx=dh, log_level="ERROR").minimize(p.length_idx)


def run_history(hist):
    state = {}
    try:
        for op in hist:
            apply_op(op, state)
        res = do_probe(state.get("problem"))
        out = {"history": hist, "probe": res}
        if state.get("problem") is not None:
            out["problem_changed"] = problem_view(state["problem"]) != state["view"]
        return out
    except BaseException as e:  # noqa
        return {"history": hist, "error": f"{type(e).__name__}: {e}"[:300]}


def all_histories(tier, compiled):
    import itertools

    maxlen = 3 if tier == "quick" else 4
    if compiled:
        maxlen -= 1
    hs = [""]
    for n in range(1, maxlen + 1):
        hs += ["".join(p) for p in itertools.product(OPS, repeat=n)]
    return hs


def cmd_histories(tier, shard, nshards):
    import os

    compiled = os.environ.get("MC_COMPILED") == "1"
    hs = [h for i, h in enumerate(all_histories(tier, compiled)) if i % nshards == shard or h == ""]
    ctx = mp.get_context("fork")
    results = []
    with ctx.Pool(2, maxtasksperchild=1) as pool:  # every history runs in a child forked from this pristine process
        for r in pool.imap(run_history, hs, chunksize=1):
            results.append(r)
    print(json.dumps(results))


def cmd_warm():
    do_probe()
    apply_op("G", {})
    print(json.dumps({"warm": True}))


if __name__ == "__main__":
    cmd = sys.argv[1]
    if cmd == "slice":
        cmd_slice(sys.argv[2], int(sys.argv[3]), int(sys.argv[4]), sys.argv[5] if len(sys.argv) > 5 else "fwd")
    elif cmd == "histories":
        cmd_histories(sys.argv[2], int(sys.argv[3]), int(sys.argv[4]))
    elif cmd == "warm":
        cmd_warm()
