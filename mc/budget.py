"""
Deterministic step budgets (DESIGN 2.9): non-termination made a finite observation.

sys.monitoring (Python 3.12) counts JUMP events (every loop back-edge) on the code objects of the nucs modules
given to `watch`; the callback raises BudgetExceeded beyond the budget. No wall clock is involved, so the
verdict is the same on every run.
"""
import sys
import types

TOOL = 4
_E = sys.monitoring.events
_state = {"n": 0, "budget": 1 << 62, "installed": False, "max": 0}


class BudgetExceeded(Exception):
    pass


def _on_jump(code, offset, dest):
    _state["n"] += 1
    if _state["n"] > _state["budget"]:
        _state["n"] = 0  # so that the exception can unwind through further loops
        raise BudgetExceeded(f"{code.co_name} ({code.co_filename.split('/')[-1]})")


def _codes_of(module):
    out = []
    for v in vars(module).values():
        f = getattr(v, "py_func", v)
        if isinstance(f, types.FunctionType) and f.__module__ == module.__name__:
            out.append(f.__code__)
    return out


def watch(modules):
    if not _state["installed"]:
        sys.monitoring.use_tool_id(TOOL, "mc-budget")
        sys.monitoring.register_callback(TOOL, _E.JUMP, _on_jump)
        _state["installed"] = True
    for m in modules:
        for c in _codes_of(m):
            sys.monitoring.set_local_events(TOOL, c, _E.JUMP)


def start(budget: int):
    _state["n"] = 0
    _state["budget"] = budget


def used() -> int:
    n = _state["n"]
    if n > _state["max"]:
        _state["max"] = n
    return n


def max_used() -> int:
    return _state["max"]


def stop():
    _state["budget"] = 1 << 62


def propagator_modules():
    import importlib
    import pkgutil

    import nucs.propagators as pk

    return [importlib.import_module(f"nucs.propagators.{m.name}") for m in pkgutil.iter_modules(pk.__path__)]


def engine_modules():
    import importlib

    names = [
        "nucs.solvers.bound_consistency_algorithm",
        "nucs.solvers.shaving_consistency_algorithm",
        "nucs.solvers.backtrack_solver",
        "nucs.solvers.choice_points",
        "nucs.solvers.solver",
        "nucs.solvers.multiprocessing_solver",
    ]
    import pkgutil

    import nucs.heuristics as hk

    names += [f"nucs.heuristics.{m.name}" for m in pkgutil.iter_modules(hk.__path__)]
    return [importlib.import_module(n) for n in names]
