"""
PropMC (DESIGN 2.3): exhaustive enumeration of single filtering calls of the real propagators.

state      = one (type, arity, params, box) of the contract table
transition = one real call of COMPUTE_DOMAINS_FCTS[type] on a fresh int32 copy
oracle     = truth table of the independent relation predicate over the value cube
"""
import math
from fractions import Fraction

from mc import budget, contracts as K
from mc.runner import Acc, chunks, pmap

JUMP_BUDGET = 20000
UNIT_CALLS = 40000
SPIN_LIMIT = 3000

_watched = False


def _ensure_watch():
    global _watched
    if not _watched:
        budget.watch(budget.propagator_modules())
        _watched = True


def subkey(typ, n, params, box):
    """Refinement of a violation key, so that a known finding names a class of inputs and nothing else."""
    if typ == "gcc":
        m = (len(params) - 1) // 2
        v0 = params[0]
        lo = min(b[0] for b in box)
        hi = max(b[1] for b in box)
        zero_cap = any(params[1 + m + j] == 0 and lo <= v0 + j <= hi for j in range(m))
        return "ucap0" if zero_cap else "caps-pos"
    if typ.startswith("affine"):
        return "allzero" if all(c == 0 for c in params[:-1]) else "nz"
    if typ in ("no_sub_cycle", "scc"):
        return f"n{n}"
    return "-"


def safe_call(typ, box, params):
    """Returns (status, out, exc) with exc in {None, 'budget', 'index', 'exc:<Name>'}."""
    budget.start(JUMP_BUDGET)
    try:
        status, out = K.call(typ, box, params)
        return status, out, None
    except budget.BudgetExceeded:
        return None, None, "budget"
    except IndexError:
        return None, None, "index"
    except Exception as e:  # noqa
        return None, None, "exc:" + type(e).__name__
    finally:
        budget.used()
        budget.stop()


def wit(typ, n, params, box, status, out, **kw):
    d = {"type": typ, "n": n, "params": list(params), "box": [list(b) for b in box], "status": status,
         "out": None if out is None else [list(b) for b in out]}
    d.update(kw)
    return d


def subset(out, box):
    return all(o[0] >= b[0] and o[1] <= b[1] for o, b in zip(out, box))


def nonempty(out):
    return all(o[0] <= o[1] for o in out)


def is_point(box):
    return all(b[0] == b[1] for b in box)


# ----------------------------------------------------------------------------------------------------------------
# judges: judge(acc, typ, n, params, axes, box, status, out, exc, cube)
# ----------------------------------------------------------------------------------------------------------------


def _nontrivial(acc, typ, box, status, out):
    if status in (0, 2) or (out is not None and tuple(out) != tuple(box)):
        acc.c["nt_any"] += 1
    if status == 0:
        acc.c["nt_failed"] += 1
        acc.add("failed_types", typ)
    elif status == 2:
        acc.c["nt_entailed"] += 1
        acc.add("entailed_types", typ)
    if status != 0 and out is not None and tuple(out) != tuple(box):
        acc.c["nt_pruned"] += 1
        acc.add("pruned_types", typ)


def judge_c05(acc, typ, n, params, axes, box, status, out, exc, cube):
    sk = subkey(typ, n, params, box)
    if exc is not None:
        if exc.startswith("exc:"):
            acc.violation(f"{typ}:{sk}:raises-{exc[4:]}", wit(typ, n, params, box, None, None),
                          "a filtering call on an in-contract box raised instead of returning a box")
        else:
            acc.c["skipped_" + exc] += 1
        return
    _nontrivial(acc, typ, box, status, out)
    hull = cube.hull(box)
    if status == 0:
        if hull is not None:
            acc.violation(f"{typ}:{sk}:false-inconsistency", wit(typ, n, params, box, status, out, hull=hull),
                          "inconsistency reported although a tuple of the input box satisfies the relation")
        return
    if not subset(out, box):
        acc.violation(f"{typ}:{sk}:out-not-subset", wit(typ, n, params, box, status, out),
                      "the returned box is not contained in the input box")
        return
    if hull is not None and not all(o[0] <= h[0] and o[1] >= h[1] for o, h in zip(out, hull)):
        acc.violation(f"{typ}:{sk}:lost-solution", wit(typ, n, params, box, status, out, hull=hull),
                      "a value taking part in a solution was removed")


def judge_c06(acc, typ, n, params, axes, box, status, out, exc, cube):
    sk = subkey(typ, n, params, box)
    if exc is not None:
        acc.c["skipped_" + exc] += 1
        return
    if is_point(box):
        x = tuple(b[0] for b in box)
        holds = cube.holds(x)
        acc.c["ground_tuples"] += 1
        if typ in K.PERM_ONLY and not K.is_perm(x):
            acc.c["ground_nonperm_sound_direction_only"] += 1
            if status == 0 and holds:
                acc.violation(f"{typ}:{sk}:ground-rejects-satisfying", wit(typ, n, params, box, status, out))
            return
        acc.c["nt_ground_violating" if not holds else "nt_ground_satisfying"] += 1
        if not holds and status != 0:
            acc.violation(f"{typ}:{sk}:ground-accepts-violating", wit(typ, n, params, box, status, out),
                          "all variables instantiated, relation violated, no inconsistency reported")
        if holds and status == 0:
            acc.violation(f"{typ}:{sk}:ground-rejects-satisfying", wit(typ, n, params, box, status, out),
                          "all variables instantiated, relation satisfied, inconsistency reported")
        return
    if status != 0 and is_point(out):
        x = tuple(o[0] for o in out)
        if not all(a[0] <= v <= a[1] for v, a in zip(x, axes)):
            return  # outside the input box: C05's business
        acc.c["nt_collapsed_to_point"] += 1
        if typ in K.PERM_ONLY and not K.is_perm(x):
            return
        if not cube.holds(x):
            acc.violation(f"{typ}:{sk}:collapse-to-violating-point", wit(typ, n, params, box, status, out),
                          "one call instantiated every variable to a tuple violating the relation, without failing")


def judge_c07(acc, typ, n, params, axes, box, status, out, exc, cube):
    if exc is not None:
        acc.c["skipped_" + exc] += 1
        return
    if status != 2:
        return
    acc.c["nt_entailed_answers"] += 1
    acc.add("entailing_types", typ)
    if not nonempty(out) or not subset(out, box):
        acc.violation(f"{typ}:{subkey(typ, n, params, box)}:entailed-with-bad-box", wit(typ, n, params, box, status, out))
        return
    if not cube.all_true(out):
        acc.violation(f"{typ}:{subkey(typ, n, params, box)}:entailed-but-violable", wit(typ, n, params, box, status, out),
                      "'entailed' answered although a tuple of the returned box violates the relation")


def affine_eq_one_round(params, box):
    """Reference: one round of interval reasoning on the *input* bounds; None if some domain becomes empty."""
    cs, rhs = params[:-1], params[-1]
    lo_terms = [min(c * b[0], c * b[1]) for c, b in zip(cs, box)]
    hi_terms = [max(c * b[0], c * b[1]) for c, b in zip(cs, box)]
    out = []
    for i, (c, b) in enumerate(zip(cs, box)):
        if c == 0:
            out.append(tuple(b))
            continue
        rest_lo = sum(lo_terms) - lo_terms[i]
        rest_hi = sum(hi_terms) - hi_terms[i]
        # c * x in [rhs - rest_hi, rhs - rest_lo]
        a, z = Fraction(rhs - rest_hi, c), Fraction(rhs - rest_lo, c)
        if c < 0:
            a, z = z, a
        lo, hi = max(b[0], math.ceil(a)), min(b[1], math.floor(z))
        if lo > hi:
            return None
        out.append((lo, hi))
    return tuple(out)


def judge_c14(acc, typ, n, params, axes, box, status, out, exc, cube):
    sk = subkey(typ, n, params, box)
    if exc is not None:
        acc.c["skipped_" + exc] += 1
        return
    if typ == "affine_eq":
        ref = affine_eq_one_round(params, box)
        acc.c["nt_affine_eq_pruned" if (ref is not None and ref != tuple(box)) else "affine_eq_other"] += 1
        if status == 0:
            if ref is not None and cube.any_true(box):
                acc.violation(f"affine_eq:{sk}:inconsistency-but-one-round-nonempty",
                              wit(typ, n, params, box, status, out, reference=ref))
        else:
            if ref is None:
                acc.violation(f"affine_eq:{sk}:one-round-empty-not-reported", wit(typ, n, params, box, status, out))
            elif tuple(out) != ref:
                acc.violation(f"affine_eq:{sk}:not-one-round-box", wit(typ, n, params, box, status, out, reference=ref),
                              "linear equality did not return the one-round interval box")
        return
    if typ not in K.BC_EXACT:
        return
    hull = cube.hull(box)
    _nontrivial(acc, typ, box, status, out)
    if hull is None:
        if status != 0:
            acc.violation(f"{typ}:{sk}:empty-not-reported", wit(typ, n, params, box, status, out),
                          "no tuple of the box satisfies the relation but no inconsistency was reported")
        return
    if status == 0:
        acc.violation(f"{typ}:{sk}:false-inconsistency", wit(typ, n, params, box, status, out, hull=hull))
        return
    if tuple(out) != hull:
        acc.violation(f"{typ}:{sk}:not-the-hull", wit(typ, n, params, box, status, out, hull=hull),
                      "returned bounds differ from the min/max over the satisfying tuples")
        return
    s2, o2, e2 = safe_call(typ, out, params)
    acc.c["second_calls"] += 1
    if e2 is not None or s2 == 0 or tuple(o2) != tuple(out):
        acc.violation(f"{typ}:{sk}:not-idempotent", wit(typ, n, params, box, status, out, second=[s2, o2, e2]),
                      "a second consecutive call changed the box or failed")


def judge_c16(acc, typ, n, params, axes, box, status, out, exc, cube):
    if exc == "index":
        acc.violation(f"{typ}:{subkey(typ, n, params, box)}:index-error", wit(typ, n, params, box, None, None),
                      "IndexError (interpreted mode): an array is indexed outside its bounds")
    elif exc is not None:
        acc.c["skipped_" + exc] += 1
    else:
        _nontrivial(acc, typ, box, status, out)


def judge_c04(acc, typ, n, params, axes, box, status, out, exc, cube):
    if exc == "budget":
        acc.violation(f"{typ}:{subkey(typ, n, params, box)}:spin", wit(typ, n, params, box, None, None),
                      f"one filtering call exceeded {JUMP_BUDGET} loop iterations (deterministic jump budget)")
    elif exc is not None:
        acc.c["skipped_" + exc] += 1
    else:
        _nontrivial(acc, typ, box, status, out)


JUDGES = {"C05": judge_c05, "C06": judge_c06, "C07": judge_c07, "C14": judge_c14, "C16": judge_c16, "C04": judge_c04}


# ----------------------------------------------------------------------------------------------------------------


def _unit(unit):
    prop, tier, typ, insts = unit
    _ensure_watch()
    judge = JUDGES[prop]
    acc = Acc()
    spins = 0
    for n, params, axes in insts:
        cube = K.Cube(typ, n, params, axes)
        acc.c["instances"] += 1
        for box in K.boxes(axes):
            if spins >= SPIN_LIMIT:  # a tree on which calls do not terminate: keep the check's run time bounded
                acc.c["calls_skipped_after_repeated_spins"] += 1
                continue
            acc.c["calls"] += 1
            status, out, exc = safe_call(typ, box, params)
            if exc == "budget":
                spins += 1
            judge(acc, typ, n, params, axes, box, status, out, exc, cube)
            if not acc.samples and status == 1 and tuple(out) != tuple(box):
                acc.sample({"type": typ, "n": n, "params": list(params), "box": [list(b) for b in box],
                            "status": status, "out": [list(b) for b in out],
                            "oracle_hull": cube.hull(box)}, cap=1)
    acc.mx("max_jumps_in_a_terminating_call", budget.max_used())
    if acc.c["calls_skipped_after_repeated_spins"]:
        acc.caps.append(f"{acc.c['calls_skipped_after_repeated_spins']} calls of {typ} skipped after {SPIN_LIMIT} non-terminating calls in one work unit")
    return acc


def _ground_unit(unit):
    """Ground tuples only, at arities the box enumeration cannot afford (C06)."""
    import itertools

    prop, tier, typ, insts = unit
    _ensure_watch()
    judge = JUDGES[prop]
    acc = Acc()
    pred = K.PRED[typ]

    class PointOracle:
        def __init__(self, params):
            self.params = params

        def holds(self, x):
            return bool(pred(tuple(x), self.params))

    for n, params, axes, mode in insts:
        oracle = PointOracle(tuple(params))
        acc.c["ground_instances"] += 1
        if mode == "perms":
            lo = axes[0][0]
            points = (tuple(v + lo for v in p) for p in itertools.permutations(range(n)))
        else:
            points = itertools.product(*[range(a, b + 1) for a, b in axes])
        for x in points:
            box = tuple((v, v) for v in x)
            acc.c["calls"] += 1
            acc.c["ground_only_calls"] += 1
            status, out, exc = safe_call(typ, box, params)
            judge(acc, typ, n, params, axes, box, status, out, exc, oracle)
    return acc


def run_ground(prop, tier, seed, types=None) -> Acc:
    units = []
    for typ in types or K.TYPES:
        cur, cost = [], 0
        for n, params, axes, mode in K.ground_instances(typ, tier):
            size = 1
            if mode == "perms":
                import math
                size = math.factorial(n)
            else:
                for a, b in axes:
                    size *= b - a + 1
            cur.append((n, params, axes, mode))
            cost += size
            if cost >= UNIT_CALLS:
                units.append((prop, tier, typ, cur))
                cur, cost = [], 0
        if cur:
            units.append((prop, tier, typ, cur))
    return pmap(_ground_unit, units, seed)


def units_for(prop, tier, types=None):
    units = []
    for typ in types or K.TYPES:
        cur, cost = [], 0
        for inst in K.instances(typ, tier):
            cur.append(inst)
            cost += K.n_boxes(inst[2])
            if cost >= UNIT_CALLS:
                units.append((prop, tier, typ, cur))
                cur, cost = [], 0
        if cur:
            units.append((prop, tier, typ, cur))
    return units


def run(prop, tier, seed, types=None) -> Acc:
    return pmap(_unit, units_for(prop, tier, types), seed)


def replay_witness(prop, w) -> Acc:
    """Re-execute one recorded case without the explorer (used by ./check <id> --replay)."""
    _ensure_watch()
    acc = Acc()
    typ, n, params, box = w["type"], w["n"], tuple(w["params"]), tuple(tuple(b) for b in w["box"])
    axes = tuple((min(b[0] for b in box) - 0, max(b[1] for b in box)) for _ in box)
    axes = tuple((b[0], b[1]) for b in box)
    cube = K.Cube(typ, n, params, axes)
    status, out, exc = safe_call(typ, box, params)
    JUDGES[prop](acc, typ, n, params, axes, box, status, out, exc, cube)
    return acc
