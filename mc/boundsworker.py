"""Compiled-mode bounds-checked worker (NUMBA_BOUNDSCHECK=1, private cache): python -m mc.boundsworker <tier> <shard> <nshards>
Calls every propagator of the contract table directly (an IndexError propagates from a direct dispatcher call) and runs whole
solves of a universe slice with fd 2 captured (a bounds failure inside a function called through an address is only printed as
'Exception ignored')."""
import json
import os
import sys
import tempfile

from mc import env  # noqa


def main(tier, shard, nshards):
    import numpy as np

    from mc import contracts as K, modeworker as W, solvemc as S
    from nucs.propagators import propagators as P

    out = {"calls": 0, "index_errors": [], "other_errors": {}, "solves": 0, "stderr_hits": []}
    step = 3 if tier == "quick" else 1
    k = 0
    for typ in K.TYPES:
        fct = P.COMPUTE_DOMAINS_FCTS[K.ALG[typ]]
        for n, params, axes in K.instances(typ, "quick"):
            k += 1
            if k % nshards != shard or (k // nshards) % step:
                continue
            par = np.array(params, dtype=np.int32)
            if typ == "gcc":
                m = (len(params) - 1) // 2
                if 0 in params[1 + m:]:
                    continue  # known finding: does not terminate (C04 gcc:ucap0:spin)
            for box in K.boxes(axes):
                dom = np.array(box, dtype=np.int32).reshape((n, 2))
                out["calls"] += 1
                try:
                    fct(dom, par)
                except IndexError as e:
                    if len(out["index_errors"]) < 5:
                        out["index_errors"].append({"type": typ, "n": n, "params": list(params), "box": [list(b) for b in box], "error": str(e)[:100]})
                    out["n_index_errors"] = out.get("n_index_errors", 0) + 1
                except Exception as e:  # noqa
                    out["other_errors"][type(e).__name__] = out["other_errors"].get(type(e).__name__, 0) + 1
    # whole solves with fd 2 captured
    specs = W.slice_specs(tier)
    tmp = tempfile.TemporaryFile(mode="w+b")
    saved = os.dup(2)
    sys.stderr.flush()
    os.dup2(tmp.fileno(), 2)
    marks = []
    try:
        for i, spec in enumerate(specs):
            if i % nshards != shard:
                continue
            for cfg in W.slice_cfgs(spec, tier):
                pos = tmp.tell() if False else os.lseek(tmp.fileno(), 0, os.SEEK_END)
                S.run(spec, cfg, jump_budget=1 << 60)
                out["solves"] += 1
                end = os.lseek(tmp.fileno(), 0, os.SEEK_END)
                if end > pos:
                    marks.append((i, list(cfg), pos, end))
    finally:
        sys.stderr.flush()
        os.dup2(saved, 2)
    for i, cfg, pos, end in marks[:20]:
        os.lseek(tmp.fileno(), pos, os.SEEK_SET)
        text = os.read(tmp.fileno(), min(end - pos, 2000)).decode(errors="replace")
        if "IndexError" in text or "out of bounds" in text or "Exception ignored" in text:
            out["stderr_hits"].append({"spec": specs[i], "cfg": cfg, "stderr": text[-600:]})
    print(json.dumps(out))


if __name__ == "__main__":
    main(sys.argv[1], int(sys.argv[2]), int(sys.argv[3]))
